#!/bin/bash
# revert_fixes.sh : every repaired defect, put back (mutants/reverts/<key>.diff = the fix commit reversed against the current
# tree; two were re-based by hand because later fixes touched the same lines), must be caught again by a check of its property.
# Prints one line per fix:  <key> [properties] RESULT Cxx=CAUGHT|MISSED ...
cd "$(dirname "$0")/.."
python3 - <<'PY' > /tmp/fixlist.$$
import json
for x in json.load(open('known_findings.json'))['findings']:
    if x.get('status') == 'fixed':
        print(x['commit'], ",".join(x['properties']), x['key'])
PY
while read c props key; do
  p=mutants/reverts/$key.diff
  [ -f "$p" ] || git -C /repo diff $c^ $c -R -- spydrnet > $p
  out=$(python3 tools/mutant.py $p ${props//,/ } "$@" 2>&1 | grep "RESULT\|PATCH\|rror" | tr '\n' ' ')
  echo "$key [$props] $out"
done < /tmp/fixlist.$$
rm -f /tmp/fixlist.$$
