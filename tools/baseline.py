#!/usr/bin/env python3
"""Run the repository's pinned test suite with the verification guard OFF and compare with BASELINE.json.
exit 0 iff every stable_pass test passes."""
import json, os, subprocess, sys, tempfile
import xml.etree.ElementTree as ET

base = json.load(open("/root/.vp/BASELINE.json")) if os.path.exists("/root/.vp/BASELINE.json") else None
env = dict(os.environ)
env.pop("SPYDRNET_VERIF", None)
with tempfile.TemporaryDirectory() as d:
    x = os.path.join(d, "j.xml")
    subprocess.run(["/venv/bin/python", "-m", "pytest", "-ra", "-q", "-p", "no:cacheprovider", "--timeout=900",
                    "--continue-on-collection-errors", "--junitxml=" + x], cwd="/repo", env=env,
                   stdout=subprocess.DEVNULL, stderr=subprocess.DEVNULL)
    passed = set()
    for tc in ET.parse(x).getroot().iter("testcase"):
        if not any(c.tag in ("failure", "error", "skipped") for c in tc):
            passed.add("%s::%s" % (tc.get("classname"), tc.get("name")))
if base is None:
    print("passed", len(passed)); sys.exit(0)
want = set(base["stable_pass"])
def norm(s):
    return s.replace("::", ".")
pn = set(norm(p) for p in passed)
missing = sorted(w for w in want if norm(w) not in pn)
print("baseline stable=%d passed_now=%d missing=%d" % (len(want), len(passed), len(missing)))
for m in missing[:20]:
    print("  MISSING", m)
sys.exit(1 if missing else 0)
