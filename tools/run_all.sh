#!/bin/bash
# run_all.sh <tier> <seed...> : runs every check, prints one line per check (+ any VIOLATION / INCONCLUSIVE lines)
tier=$1; shift
cd "$(dirname "$0")/.."
for seed in "$@"; do
  for i in $(seq -w 1 20); do
    p=C$i
    out=$(VERIF_SEED=$seed /venv/bin/python -W ignore harness/check.py $p --tier $tier 2>&1); rc=$?
    echo "$out" | grep -E "^(VIOLATION|INCONCLUSIVE|violation keys)" | cut -c1-400
    echo "rc=$rc $(echo "$out" | grep -E "^$p tier" | cut -c1-200)"
  done
done
