#!/bin/bash
# run_all.sh <tier> <seed...> : runs every check (or those named in CHECKS="C03 C09"), prints one line per check (+ any
# VIOLATION / INCONCLUSIVE lines)
tier=$1; shift
cd "$(dirname "$0")/.."
for seed in "$@"; do
  for p in ${CHECKS:-C01 C02 C03 C04 C05 C06 C07 C08 C09 C10 C11 C12 C13 C14 C15 C16 C17 C18 C19 C20}; do
    out=$(VERIF_SEED=$seed /venv/bin/python -W ignore harness/check.py $p --tier $tier 2>&1); rc=$?
    echo "$out" | grep -E "^(VIOLATION|INCONCLUSIVE|violation keys)" | cut -c1-400
    echo "rc=$rc $(echo "$out" | grep -E "^$p tier" | cut -c1-200)"
  done
done
