#!/bin/bash
# usage: sv.sh <dir> <prop> <name> <checks> [patch demo]
cd /verif
python3 tools/seed_verify.py "$1" "$2" "$3" --checks "$4" ${5:+--patch $5} ${6:+--demo $6} 2>&1 | grep -v conda | python3 -c "
import sys,json
t=sys.stdin.read()
try:
    d=json.loads(t[t.index('{'):])
    print('$3', 'VALID' if d['valid_seed'] else 'INVALID', d['steps'])
    for k,v in d['checks'].items(): print('   ',k,v['verdict'],v['keys'][:260])
except Exception as e:
    print('ERR',e,t[-500:])
"
