#!/usr/bin/env python3
"""Regenerates the machine-written tables of DESIGN.md (between <!-- AUTO:x --> markers) from known_findings.json and seeded/*/meta.json."""
import json, os, glob, re
V = os.path.dirname(os.path.dirname(os.path.abspath(__file__)))
f = json.load(open(os.path.join(V, "known_findings.json")))["findings"]
def esc(s): return str(s).replace("|", "\\|").replace("\n", " ")
fixed = ["| key | properties | commit | what failed |", "|---|---|---|---|"]
openf = ["| key | properties | what fails | fence (workload restriction while open) | why not repaired |", "|---|---|---|---|---|"]
FENCES = {
 "clone-not-registered-in-namespace": "C07/C10/C20: exact-name lookups on clones replaced by wildcard lookups / skipped",
 "identifier-lookup-under-default-policy": "C10/C13: exact EDIF.identifier lookups skipped when the scope's policy is DEFAULT",
 "overlapping-patterns-duplicates": "C13: R2 on get_libraries/definitions/instances uses two non-overlapping exact patterns",
 "exact-user-key-returns-one-per-scope": "C13: exact patterns on user keys skipped",
 "hquery-ignores-pattern-for-element-roots": "C13: hierarchical pattern relations only for netlist / instance-HRef roots with selection INSIDE",
 "long-bus-net-bit-identifier-too-long": "C17: multi-bit nets get names <= 240 characters",
 "bus-net-backslash-name-not-reassembled": "C17: multi-bit net names do not start with a backslash",
 "positional-map-before-declaration": "C06/C04: positional maps only when modules are written in declaration-before-use order",
 "flattened-names-written-unescaped": "C04: after flatten the minted names (a/b) are respelled as plain identifiers before composing; emptied modules are compared by their ports only; the composer's refusal of an assign across cables is counted, not judged",
 "non-integer-position-fails-late": "C02, C10, C14, C19: no non-integer / oversized position= arguments; C01: none for connect_pin only (the add_* calls are driven with them: C01's facts hold there)",
 "comparer-depends-on-pin-order-within-wire": "C20: Verilog write-then-read copies are not offered to the comparer (Verilog-origin netlists still go through the rebuild / itself comparisons and every mutation)",
 "eblif-conn-on-bus-bit-renumbers-bus": "C18: no write-and-read-back after a .conn on a bus bit below the top bit (the reader's result is still judged against the model)",
}
for x in f:
    if x["status"] == "fixed":
        fixed.append("| %s | %s | %s | %s |" % (x["key"], " ".join(x["properties"]), x["commit"], esc(x["what_fails"])))
    else:
        openf.append("| %s | %s | %s | %s | %s |" % (x["key"], " ".join(x["properties"]), esc(x["what_fails"]), FENCES.get(x["key"], "-"), esc(x.get("why_not_fixed", ""))))
seeded = ["| seed | property | needs to manifest | verdict per check (now) | missed at first -> what was added |", "|---|---|---|---|---|"]
for m in sorted(glob.glob(os.path.join(V, "seeded", "*", "meta.json"))):
    d = json.load(open(m))
    seeded.append("| %s | %s | %s | %s | %s |" % (d["name"], d["property"], esc(d.get("needs_to_manifest", ""))[:160],
                                                 ", ".join("%s: %s" % (k, v["verdict"]) for k, v in d.get("checks", {}).items()),
                                                 esc(d.get("missed_at_first", "") or (("NOT DEMANDED BY THE PROPERTY: " + d["not_demanded_by_property"]) if d.get("not_demanded_by_property") else ""))))
import ast
asbuilt = ["| check | monitors (module docstring) | case rule and distinct / non-trivial criteria | cases quick / thorough | REQUIRED monitor counters (else exit 2) |", "|---|---|---|---|---|"]
for k in range(1, 21):
    src = open(os.path.join(V, "harness", "props", "c%02d.py" % k)).read()
    tree = ast.parse(src)
    vals = {}
    for node in tree.body:
        if isinstance(node, ast.Assign) and isinstance(node.targets[0], ast.Name) and node.targets[0].id in ("RULE", "REQUIRED"):
            try:
                vals[node.targets[0].id] = ast.literal_eval(node.value)
            except ValueError:
                vals[node.targets[0].id] = "(computed)"
    doc = (ast.get_docstring(tree) or "").split("\n\n", 1)
    doc = " ".join((doc[1] if len(doc) > 1 else doc[0]).split())
    m = re.findall(r'"cases": ([0-9* ]+)', src)
    cases = [str(eval(x)) for x in m[:2]]
    asbuilt.append("| C%02d | %s | %s | %s | %s |" % (k, esc(doc)[:700], esc(vals.get("RULE", ""))[:700], " / ".join(reversed(cases)),
                                                      esc(", ".join("%s>=%s" % kv for kv in vals.get("REQUIRED", {}).items()) if isinstance(vals.get("REQUIRED"), dict) else "")))
tables = {"FIXED": "\n".join(fixed), "OPEN": "\n".join(openf), "SEEDED": "\n".join(seeded), "ASBUILT": "\n".join(asbuilt)}
p = os.path.join(V, "DESIGN.md")
s = open(p).read()
for k, t in tables.items():
    s = re.sub(r"<!-- AUTO:%s -->.*?<!-- /AUTO:%s -->" % (k, k), lambda _m, k=k, t=t: "<!-- AUTO:%s -->\n%s\n<!-- /AUTO:%s -->" % (k, t, k), s, flags=re.S)
open(p, "w").write(s)
print("tables written:", {k: t.count("\n") - 1 for k, t in tables.items()})
