#!/usr/bin/env python3
"""Re-run the checks recorded in seeded/<name>/meta.json against each seeded change (after a check or a generator was
changed: generator changes shift every random stream, so every seed of the touched properties is re-confirmed).

  reverify_seeds.py [C07 C12 ...] [--tier quick] [--jobs 4] [--seed N] [--names a,b] [--own] [--dry]
Each job works in scratch copies of /repo (patched) and of /verif's harness under $TMPDIR, removed afterwards; /repo and
/verif/evidence are never touched.  meta.json's "checks" are updated in place.  Exit 1 if a recorded CAUGHT became MISSED."""
import json, os, shutil, subprocess, sys, tempfile
from concurrent.futures import ThreadPoolExecutor

V = os.path.dirname(os.path.dirname(os.path.abspath(__file__)))
a = sys.argv[1:]



def _copytree(src, dst, **kw):
    """shutil.copytree that tolerates files which vanish while it runs (the repository's own tests, when they run at the same
    time, create and delete scratch files in the repository's directory)."""
    try:
        shutil.copytree(src, dst, **kw)
    except shutil.Error as ex:
        real = [e for e in ex.args[0] if "No such file or directory" not in str(e[2])]
        if real:
            raise


def opt(flag, default):
    if flag in a:
        i = a.index(flag); v = a[i + 1]; del a[i:i + 2]; return v
    return default


tier, jobs, seed = opt("--tier", "quick"), int(opt("--jobs", "4")), opt("--seed", "0")
names = opt("--names", None)        # comma-separated seed names: only these
own_only = "--own" in a             # only each seed's own property's check
dry = "--dry" in a                  # do not rewrite meta.json (robustness sweeps with other VERIF_SEED values)
a = [x for x in a if x not in ("--own", "--dry")]
names = set(names.split(",")) if names else None
props = set(a)
work = []
for name in sorted(os.listdir(os.path.join(V, "seeded"))):
    mp = os.path.join(V, "seeded", name, "meta.json")
    if not os.path.exists(mp):
        continue
    m = json.load(open(mp))
    if m.get("obsolete"):
        continue
    if names is not None and name not in names:
        continue
    for c in m.get("checks", {}):
        if own_only and c != m.get("property"):
            continue
        if not props or c in props:
            work.append((name, c))


def job(item):
    name, c = item
    tmp = tempfile.mkdtemp(prefix="rv_")
    try:
        dst = os.path.join(tmp, "repo")
        _copytree("/repo", dst, ignore=shutil.ignore_patterns(".git", "__pycache__", "docs", "example_netlists"), symlinks=True)
        os.symlink("/repo/example_netlists", os.path.join(dst, "example_netlists"))
        r = subprocess.run(["patch", "-p1", "-s", "-i", os.path.join(V, "seeded", name, "patch.diff")], cwd=dst, capture_output=True, text=True)
        if r.returncode != 0:
            return name, c, {"rc": -1, "verdict": "PATCH-FAILED", "keys": (r.stdout + r.stderr)[:200]}
        vv = os.path.join(tmp, "verif")
        shutil.copytree(V, vv, ignore=shutil.ignore_patterns(".git", "seeded", "evidence", "replays", "__pycache__", "mutants"))
        env = dict(os.environ, VERIF_REPO=dst, VERIF_SEED=seed, SPYDRNET_LOG_LEVEL="CRITICAL", PYTHONHASHSEED="0")
        r = subprocess.run(["/venv/bin/python", "-W", "ignore", os.path.join(vv, "harness", "check.py"), c, "--tier", tier],
                           cwd=vv, env=env, capture_output=True, text=True)
        keys = [l for l in r.stdout.splitlines() if l.startswith("violation keys")]
        return name, c, {"rc": r.returncode, "verdict": {0: "MISSED", 1: "CAUGHT", 2: "INCONCLUSIVE"}.get(r.returncode, "ERROR"),
                         "keys": keys[0][:600] if keys else ""}
    finally:
        shutil.rmtree(tmp, ignore_errors=True)


bad = 0
with ThreadPoolExecutor(jobs) as ex:
    for name, c, res in ex.map(job, work):
        mp = os.path.join(V, "seeded", name, "meta.json")
        m = json.load(open(mp))
        was = m["checks"][c]["verdict"]
        if not dry:
            m["checks"][c] = res
            json.dump(m, open(mp, "w"), indent=1)
        flag = ""
        if was == "CAUGHT" and res["verdict"] != "CAUGHT":
            bad += 1
            flag = "   <<<<<< REGRESSION (was CAUGHT)"
        print("%-52s %s %-12s %s%s" % (name, c, res["verdict"], res["keys"][:150], flag), flush=True)
print("regressions:", bad)
sys.exit(1 if bad else 0)
