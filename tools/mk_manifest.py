#!/usr/bin/env python3
"""Regenerates MANIFEST.json from the table below (kept valid against /root/.vp/MANIFEST.schema.json)."""
import json, os, subprocess
V = os.path.dirname(os.path.dirname(os.path.abspath(__file__)))
props = [json.loads(l) for l in open(os.path.join(V, "properties.jsonl"))]
CHECKS = {
 "C01": ("exploration", "invariant hook over live IR state at every outermost mutator exit (runtime monitor, random call histories)",
         "I1-I5 evaluated over the whole universe of touched objects after every call of thousands of random valid/invalid mutator histories, and inside readers-free transforms (uniquify/flatten/clone) via the probe layer. Held-on-observed, not universal.",
         "oracle reads only the public read API; proxy outer pins are inputs; one naming policy per history", "4 C01"),
 "C02": ("exploration", "invariant hook + transition monitors (dropped outer pins, re-point keeps connections) at every outermost mutator exit",
         "I6-I9 after every call of 'mirror'-profile histories (few definitions, many instances, port/pin/reference edits). Held-on-observed.",
         "pin-map order not checked; oracle reads only the public read API", "4 C02"),
 "C14": ("fault_enumeration", "before/after identity-level snapshot of the whole universe around every refused outermost mutator call (runtime monitor over hostile call histories)",
         "every refused call (mutator x invalid-argument class, appendix A) of hostile random histories is one injected fault; snapshot incl. order, connections, reference sets, data, bundle attributes, naming policy, the namespace manager's name tables and (1/3 of histories) public exact-name lookup answers must be identical. Fault classes are enumerated per reachable state, states are explored randomly.",
         "refusal = explicit assert/raise (incl. listener veto) or missing-key KeyError; other exceptions are crashes: counted, listed in evidence, not judged", "4 C14"),
 "C19": ("exploration", "callback-driven shadow model compared with the live universe after every call + pre-state predicates inside each notification + listener differential",
         "a listener that only replays notifications must equal the real structure/data after every call of random histories (accepted, refused, bulk, compound, implicit pin create/drop/disconnect); each notification is checked to precede its effect; extra passive listeners must not change outcomes.",
         "containment order not mirrored; duplicate disconnect notifications inside one call tolerated; clone/uniquify excluded (not the editing API)", "4 C19"),
}
NA = {}
fixes = subprocess.run(["git", "-C", "/repo", "log", "--format=%h %s"], capture_output=True, text=True).stdout.splitlines()
man = {
 "version": 1,
 "setup_cmd": "/venv/bin/python -W ignore harness/selftest.py",
 "hooks": {"guard": "SPYDRNET_VERIF",
           "enable": "no source hooks: the harness monkey-patches spydrnet.ir mutators at import time when SPYDRNET_VERIF=1 (set by harness/common.py for its shard processes); /repo is imported from its working tree (VERIF_REPO, default /repo)",
           "baseline_off_cmd": "python3 /verif/tools/baseline.py",
           "source_commits": [], "add_only": True},
 "engines": [{"name": "harness", "path": "harness/", "serves_properties": sorted(CHECKS),
              "kind_free_text": "pure-stdlib Python runtime monitors: probe layer, universe invariant walker, snapshot differ, reference models, generators, fault injectors"}],
 "checks": [], "not_applicable": [],
 "notes": "Runtime monitoring only. Genuine defects repaired in /repo by 'fix:' commits: " + "; ".join(f for f in fixes if " fix:" in f) + ". Open findings: known_findings.json.",
}
for p in props:
    pid = p["id"]
    if pid in CHECKS:
        lvl, tech, text, note, ref = CHECKS[pid]
        man["checks"].append({
            "property_id": pid,
            "quick_cmd": "/venv/bin/python -W ignore harness/check.py %s --tier quick" % pid,
            "thorough_cmd": "/venv/bin/python -W ignore harness/check.py %s --tier thorough" % pid,
            "evidence_file": "/verif/evidence/%s.json" % pid,
            "replay_cmd_template": "/venv/bin/python -W ignore harness/check.py %s --replay {path}" % pid,
            "engine": "harness",
            "level_claimed": {"category": lvl, "text": text, "design_ref": "DESIGN.md section " + ref},
            "level_note": note, "technique": tech})
    else:
        man["not_applicable"].append({"property_id": pid, "reason": NA.get(pid, "check not built yet in this round (runtime monitor designed in DESIGN.md section 4); not claimed")})
json.dump(man, open(os.path.join(V, "MANIFEST.json"), "w"), indent=1)
print("checks", len(man["checks"]), "not_applicable", len(man["not_applicable"]))
