#!/usr/bin/env python3
"""Regenerates MANIFEST.json from the table below (kept valid against /root/.vp/MANIFEST.schema.json)."""
import json, os, subprocess
V = os.path.dirname(os.path.dirname(os.path.abspath(__file__)))
props = [json.loads(l) for l in open(os.path.join(V, "properties.jsonl"))]
CHECKS = {
 "C01": ("exploration", "invariant hook over live IR state at every outermost mutator exit (runtime monitor, random call histories)",
         "I1-I5 evaluated over the whole universe of touched objects after every call of thousands of random valid/invalid mutator histories, and inside uniquify/flatten/clone via the probe layer; the thorough tier also runs the repository's own test suite under the same monitor (DESIGN 8.2). Held-on-observed, not universal.",
         "oracle reads only the public read API; proxy outer pins are inputs; one naming policy per history", "4 C01"),
 "C02": ("exploration", "invariant hook + transition monitors (dropped outer pins, re-point keeps connections) at every outermost mutator exit",
         "I6-I9 after every call of 'mirror'-profile histories (few definitions, many instances, port/pin/reference edits); the thorough tier also runs the repository's own test suite under the I6-I8 monitor (DESIGN 8.2). Held-on-observed.",
         "pin-map order not checked; oracle reads only the public read API", "4 C02"),
 "C14": ("fault_enumeration", "before/after identity-level snapshot of the whole universe around every refused outermost mutator call (runtime monitor over hostile call histories)",
         "every refused call (mutator x invalid-argument class, appendix A) of hostile random histories is one injected fault; snapshot incl. order, connections, reference sets, data, bundle attributes, naming policy, the namespace manager's name tables and (1/3 of histories) public exact-name lookup answers must be identical. Fault classes are enumerated per reachable state, states are explored randomly.",
         "refusal = explicit assert/raise (incl. listener veto) or missing-key KeyError; other exceptions are crashes: counted, listed in evidence, not judged", "4 C14"),
 "C19": ("exploration", "callback-driven shadow model compared with the live universe after every call + pre-state predicates inside each notification + listener differential",
         "a listener that only replays notifications must equal the real structure/data after every call of random histories (accepted, refused, bulk, compound, implicit pin create/drop/disconnect); each notification is checked to precede its effect; extra passive listeners must not change outcomes.",
         "containment order not mirrored; duplicate disconnect notifications inside one call tolerated; clone/uniquify excluded (not the editing API)", "4 C19"),
 "C08": ("exploration", "before/after independent elaboration (union-find over hierarchical wires) around uniquify + uniqueness walk + snapshot idempotence + invariant hooks inside uniquify",
         "instance-name tree, leaf type per path and endpoint partition must be identical before/after uniquify on generated sharing-heavy netlists; every non-leaf path unique; new definitions placed/named correctly; second run changes nothing.",
         "elaboration oracle written against the public read API; generated names never end in _sdn_unique_<n>", "4 C08"),
 "C09": ("exploration", "before-flatten elaboration vs direct reading of the flat top definition + logical-step budget + invariant hooks inside flatten",
         "leaf occurrences (slash-joined path, definition, data) and endpoint partition compared on generated uniquified netlists; no hierarchical child may remain; flatten must finish within a step budget.",
         "names contain no '/'; netlist uniquified first", "4 C09"),
 "C11": ("exploration", "query results vs independent occurrence enumeration; validity/uniqueness recomputation after breaking edits; flyweight identity",
         "five hierarchical enumerations (netlist/element/HRef roots, recursive on/off) compared as multisets of item paths with a recursive enumeration; name, validity, uniqueness and flyweight identity of every sampled reference checked before and after random breaking edits.",
         "is_unique read as 'innermost instance reached by exactly one path' (DESIGN C11)", "4 C11"),
 "C12": ("exploration", "trace results vs equivalence classes of an independent union-find over hierarchical wires, every hwire/hpin as start",
         "get_hwires/get_hcables (ALL/INSIDE/OUTSIDE/BOTH), get_hpins(hwire), get_hports(hwire) from every hierarchical wire and pin of generated netlists must equal the oracle's classes exactly, without duplicates.",
         "net classes derived through the public read API only", "4 C12"),
 "C07": ("exploration", "closure / canonical-form / snapshot / independence monitors around clone() for every root kind",
         "netlist clones: no shared object with the source, self-contained, positionally identical canonical form, same query answers, source snapshot unchanged, random edits and uniquify/flatten on one side never show in the other; sub-netlist clones checked against their documented bullet lists incl. exact reference-set bookkeeping; no mutable user-data value shared.",
         "roots are elements of well-formed netlists; known finding clone-not-registered-in-namespace fences exact-name lookups on clones (wildcard lookups compared instead)", "4 C07"),
 "C10": ("exploration", "stateless sibling-scan model recomputed after every step vs the namespace manager: uniqueness, refusal exactness, exact-lookup vs scan",
         "after every step of naming histories under one policy: sibling names/identifiers unique and legal, each naming refusal coincides with an independent duplicate/legality check on the current siblings, and get_*(parent, value, key) equals a linear scan over a colliding alphabet; also reader-produced netlists.",
         "open findings fence exact lookups on clones and EDIF.identifier lookups under the DEFAULT policy; EDIF identifier grammar per EDIF 2 0 0", "4 C10"),
 "C13": ("exploration", "metamorphic relations R0-R4 between related queries, with an independent pattern matcher over the unfiltered result",
         "13 query functions x all accepted root kinds x selection x recursive x keys x patterns derived from present values: restriction (R1), union/order (R2), filter callback (R3), fast-lookup on/off (R4), no duplicates (R0).",
         "documented may-match for case-variant exact EDIF identifiers; no '[' in fnmatch-evaluated patterns; four open findings fence their trigger classes (see known_findings.json)", "4 C13"),
 "C20": ("exploration", "accept/reject matrix: faithful copies must pass, copies with exactly one verified single-fact mutation must make compare() raise, both argument orders",
         "generated named netlists x 24 mutation kinds (each verified to change exactly the canonical form) x both orders; positive side: API rebuild, the netlist itself, clone (fenced while the clone/namespace finding is open).",
         "any exception counts as raise; copies built by API rebuild", "4 C20"),
 "C03": ("exploration", "write->read differential with canonical form + independent s-expression observer of the written file",
         "generated EDIF-expressible netlists under both policies and bundled .edf examples: canon_edif before compose == canon_edif after re-parse; the file as read by an independent s-expression reader equals the inventory the netlist dictates; a second round trip is a fixpoint.",
         "port base index and library/cell order not compared (not promised)", "4 C03"),
 "C17": ("exploration", "legality/uniqueness predicate (independent EDIF identifier grammar) over identifiers stored after compose + reparse + direct make_valid calls",
         "adversarial sibling name sets in every scope: every identifier legal, unique ignoring case (also against sibling names), rename recorded, written file accepted and re-read names equal the originals.",
         "printable-ASCII names without quotes/newlines; two open findings fence long and '&_'-prefixed multi-bit net names", "4 C17"),
 "C05": ("exploration", "reader vs abstract model: independent EDIF writer renders random abstract designs, parsed netlist compared with the model; bundled files via independent s-expression reader",
         "every library/cell/port/instance/property/net/portRef of the text must appear exactly (pin positions in file order, bus bits merged at i-base with gaps), design selects the top, renames carry both names, output well-formed and self-contained.",
         "only reader-implemented constructs are emitted; no comment inside keywordMap / design (reader does not implement them); port base index not compared", "4 C05"),
 "C04": ("exploration", "write->read differential with a bit-level canonical form on reader-produced netlists (generated + bundled), optional uniquify/flatten/clone, composer options",
         "canon_verilog (ports, cables, instances with parameters/attributes, (cable,bit)->set of port/instance bits, assigns as multiset) must be identical before compose and after re-parse; composer must not raise and its text must be accepted.",
         "pin order inside a wire not compared; black boxes relaxed when write_blackbox=False; flatten fenced by an open finding", "4 C04"),
 "C06": ("exploration", "reader vs abstract model: independent Verilog writer renders random abstract designs; parsed netlist compared bit by bit with the model; bundled .v under a reduced oracle",
         "ports (direction/width/base), one cable per net, bit k of every connection expression on bit k of the instance port (named and positional), assigns, parameters, attributes, undeclared primitives, single root = top, well-formed and self-contained.",
         "port ORDER not compared; no empty positional entries; positional maps on not-yet-declared modules fenced by an open finding; bundled files: reduced oracle", "4 C06"),
 "C18": ("exploration", "reader vs abstract flat model (independent EBLIF writer) + compose->parse round trip, nets compared as sets of pins",
         "one instance per statement with model/type/data, model ports with direction, every formal=actual on the named net bit, .conn merging, unconn left open, black boxes as leaf primitives, self-contained; round trip preserves instances, types, data and pin sets.",
         "single driver per net; unique .cname on .subckt/.gate; .conn between scalar nets; dense top-level bus ports; 'unconn' bookkeeping list not compared across the round trip", "4 C18"),
 "C16": ("exploration", "before/after universe snapshot + byte comparison of repeated outputs + file-object tracking (wrapped builtins.open, weak references) around compose",
         "for EDIF/Verilog/EBLIF and all composer options: nothing but the documented EDIF side effects changes; second and third compose (after queries) are byte-identical modulo timeStamp and change nothing; every file opened for writing is closed at return, content complete.",
         "'closed at return' decided under CPython reference counting; netlists the composer refuses are counted, not judged (C03/C04/C18 judge that)", "4 C16"),
 "C15": ("fault_enumeration", "single-token fault injection into valid EDIF/Verilog/EBLIF texts under a logical-step budget, with a process-residue monitor and a fresh-process probe transcript",
         "every injected fault: the reader terminates within the step budget, a returned netlist is self-contained, dangling EDIF references / unsupported constructs are rejected, and the naming policy, callback registries and fast lookups are unchanged; a probe script behaves as in a fresh process. Thorough tier enumerates the complete single-token fault space per text (capped at 6000 faults per text by stride).",
         "fault model = single-token corruptions with a fixed replacement vocabulary; contents the reader deliberately skips (design properties, numberDefinition) are exempt from the must-reject rule", "4 C15"),
}
NA = {}
fixes = subprocess.run(["git", "-C", "/repo", "log", "--format=%h %s"], capture_output=True, text=True).stdout.splitlines()
man = {
 "version": 1,
 "setup_cmd": "/venv/bin/python -W ignore harness/selftest.py",
 "hooks": {"guard": "SPYDRNET_VERIF",
           "enable": "no source hooks: the harness monkey-patches spydrnet.ir mutators at import time when SPYDRNET_VERIF=1 (set by harness/common.py for its shard processes); /repo is imported from its working tree (VERIF_REPO, default /repo)",
           "baseline_off_cmd": "python3 /verif/tools/baseline.py",
           "source_commits": [], "add_only": True},
 "engines": [{"name": "harness", "path": "harness/", "serves_properties": sorted(CHECKS),
              "kind_free_text": "pure-stdlib Python runtime monitors: probe layer, universe invariant walker, snapshot differ, reference models, generators, fault injectors"}],
 "checks": [], "not_applicable": [],
 "notes": "Runtime monitoring only. Genuine defects repaired in /repo by 'fix:' commits: " + "; ".join(f for f in fixes if " fix:" in f) + ". Open findings: known_findings.json.",
}
for p in props:
    pid = p["id"]
    if pid in CHECKS:
        lvl, tech, text, note, ref = CHECKS[pid]
        man["checks"].append({
            "property_id": pid,
            "quick_cmd": "/venv/bin/python -W ignore harness/check.py %s --tier quick" % pid,
            "thorough_cmd": "/venv/bin/python -W ignore harness/check.py %s --tier thorough" % pid,
            "evidence_file": "/verif/evidence/%s.json" % pid,
            "replay_cmd_template": "/venv/bin/python -W ignore harness/check.py %s --replay {path}" % pid,
            "engine": "harness",
            "level_claimed": {"category": lvl, "text": text, "design_ref": "DESIGN.md section " + ref},
            "level_note": note, "technique": tech})
    else:
        man["not_applicable"].append({"property_id": pid, "reason": NA.get(pid, "check not built yet in this round (runtime monitor designed in DESIGN.md section 4); not claimed")})
json.dump(man, open(os.path.join(V, "MANIFEST.json"), "w"), indent=1)
print("checks", len(man["checks"]), "not_applicable", len(man["not_applicable"]))
