#!/usr/bin/env python3
"""Run checks against a scratch copy of /repo with one patch applied (seeded-mutant self-check).

  mutant.py <patch.diff> <Cxx> [<Cxx> ...] [--tier quick] [--seed N]
Copies /repo's working tree (without .git) to $TMPDIR, applies the patch, runs each check with
VERIF_REPO=<copy>, prints exit codes, removes the copy.  Evidence/replays of /verif are preserved."""
import os, shutil, subprocess, sys, tempfile

V = os.path.dirname(os.path.dirname(os.path.abspath(__file__)))
args = sys.argv[1:]
tier, seed = "quick", "0"
if "--tier" in args:
    i = args.index("--tier"); tier = args[i + 1]; del args[i:i + 2]
if "--seed" in args:
    i = args.index("--seed"); seed = args[i + 1]; del args[i:i + 2]
patch, props = os.path.abspath(args[0]), args[1:]
tmp = tempfile.mkdtemp(prefix="mut_")
try:
    dst = os.path.join(tmp, "repo")
    _copytree("/repo", dst, ignore=shutil.ignore_patterns(".git", "__pycache__", "docs"), symlinks=True)
    r = subprocess.run(["patch", "-p1", "-s", "-i", patch], cwd=dst, capture_output=True, text=True)
    if r.returncode != 0:
        print("PATCH FAILED", r.stdout, r.stderr); sys.exit(3)
    env = dict(os.environ, VERIF_REPO=dst, VERIF_SEED=seed)
    # keep the real evidence / replays untouched
    keep = os.path.join(tmp, "keep")
    os.makedirs(keep)
    for d in ("evidence", "replays"):
        if os.path.exists(os.path.join(V, d)):
            shutil.copytree(os.path.join(V, d), os.path.join(keep, d))
    rc_all = {}
    for p in props:
        r = subprocess.run(["/venv/bin/python", "-W", "ignore", os.path.join(V, "harness", "check.py"), p, "--tier", tier, "--seed", seed],
                           cwd=V, env=env, capture_output=True, text=True)
        lines = [l for l in r.stdout.splitlines() if l.startswith(("VIOLATION", "violation keys", "INCONCLUSIVE", p))]
        print("== %s rc=%d" % (p, r.returncode))
        for l in lines[:4] + lines[-1:]:
            print("   ", l[:400])
        rc_all[p] = r.returncode
    for d in ("evidence", "replays"):
        shutil.rmtree(os.path.join(V, d), ignore_errors=True)
        if os.path.exists(os.path.join(keep, d)):
            shutil.copytree(os.path.join(keep, d), os.path.join(V, d))
    print("RESULT", " ".join("%s=%s" % (k, "CAUGHT" if v == 1 else ("INCONCLUSIVE" if v == 2 else "MISSED")) for k, v in rc_all.items()))
finally:
    shutil.rmtree(tmp, ignore_errors=True)

def _copytree(src, dst, **kw):
    """shutil.copytree that tolerates files which vanish while it runs (the repository's own tests, when they run at the same
    time, create and delete scratch files in the repository's directory)."""
    try:
        shutil.copytree(src, dst, **kw)
    except shutil.Error as ex:
        real = [e for e in ex.args[0] if "No such file or directory" not in str(e[2])]
        if real:
            raise


