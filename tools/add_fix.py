#!/usr/bin/env python3
"""add_fix.py <key> <props,comma> <commit-subject-substring> <what_fails> <witness>  -> appends a fixed record"""
import json, subprocess, sys
key, props, sub, what, wit = sys.argv[1:6]
props = props.split(",")
log = subprocess.run(['git', '-C', '/repo', 'log', '--format=%h %s'], capture_output=True, text=True).stdout.splitlines()
commit = [l.split()[0] for l in log if sub in l][0]
p = '/verif/known_findings.json'
f = json.load(open(p))
f['findings'] = [x for x in f['findings'] if x['key'] != key]
f['findings'].append({"key": key, "properties": props, "status": "fixed", "commit": commit,
                      "record": "fixed: property=%s %s %s" % (props[0], commit, what), "what_fails": what, "witness": wit})
json.dump(f, open(p, 'w'), indent=1)
print("recorded", key, commit)
