#!/usr/bin/env python3
"""Verify a seeded property-breaking change and run our checks against it.

  seed_verify.py <srcdir> <property> <name> [--patch patch.diff] [--demo demo.py] [--checks C01,C02] [--tier quick] [--keep]
srcdir holds the patch and the demonstration.  Steps (all in a scratch copy of /repo under $TMPDIR, removed afterwards):
  1. demo on the unchanged copy must exit 0;  2. apply the patch;  3. demo must exit 1;
  4. the repository's test suite must pass exactly as the baseline;  5. run the named checks (default: the property's own)
     with VERIF_REPO=<copy>;  6. store patch, demo and meta.json under /verif/seeded/<name>/ ."""
import json, os, shutil, subprocess, sys, tempfile
import xml.etree.ElementTree as ET

V = os.path.dirname(os.path.dirname(os.path.abspath(__file__)))
a = sys.argv[1:]
def opt(flag, default=None):
    if flag in a:
        i = a.index(flag); v = a[i + 1]; del a[i:i + 2]; return v
    return default
patchf, demof = opt("--patch", "patch.diff"), opt("--demo", "demo.py")
checks = opt("--checks"); tier = opt("--tier", "quick")
src, prop, name = a[0], a[1], a[2]
checks = checks.split(",") if checks else [prop]
tmp = tempfile.mkdtemp(prefix="seed_")
meta = {"property": prop, "name": name, "steps": {}}
try:
    dst = os.path.join(tmp, "repo")
    shutil.copytree("/repo", dst, ignore=shutil.ignore_patterns(".git", "__pycache__", "docs"), symlinks=True)
    demo = os.path.join(tmp, "demo.py")
    shutil.copy(os.path.join(src, demof), demo)
    env = dict(os.environ, SPYDRNET_LOG_LEVEL="CRITICAL")
    def run_demo():
        r = subprocess.run(["/venv/bin/python", "-W", "ignore", demo], cwd=dst, env=env, capture_output=True, text=True, timeout=600)
        return r.returncode, (r.stdout + r.stderr)[-400:]
    rc0, out0 = run_demo()
    meta["steps"]["demo_unchanged_rc"] = rc0
    r = subprocess.run(["patch", "-p1", "-s", "-i", os.path.abspath(os.path.join(src, patchf))], cwd=dst, capture_output=True, text=True)
    meta["steps"]["patch_applies"] = r.returncode == 0
    if r.returncode != 0:
        print("PATCH FAILED", r.stdout, r.stderr)
    rc1, out1 = run_demo()
    meta["steps"]["demo_changed_rc"] = rc1
    x = os.path.join(tmp, "j.xml")
    subprocess.run(["/venv/bin/python", "-m", "pytest", "-q", "-p", "no:cacheprovider", "--timeout=900", "--continue-on-collection-errors",
                    "--junitxml=" + x], cwd=dst, env=env, stdout=subprocess.DEVNULL, stderr=subprocess.DEVNULL)
    passed = set()
    for tc in ET.parse(x).getroot().iter("testcase"):
        if not any(c.tag in ("failure", "error", "skipped") for c in tc):
            passed.add(("%s::%s" % (tc.get("classname"), tc.get("name"))).replace("::", "."))
    base = json.load(open("/root/.vp/BASELINE.json"))
    missing = [w for w in base["stable_pass"] if w.replace("::", ".") not in passed]
    meta["steps"]["suite_missing"] = missing[:5]
    meta["steps"]["suite_ok"] = not missing
    # the checks run from a scratch copy of the harness, so that evidence/ and replays/ of /verif are never touched
    vv = os.path.join(tmp, "verif")
    shutil.copytree(V, vv, ignore=shutil.ignore_patterns(".git", "seeded", "evidence", "replays", "__pycache__", "mutants"))
    res = {}
    for c in checks:
        r = subprocess.run(["/venv/bin/python", "-W", "ignore", os.path.join(vv, "harness", "check.py"), c, "--tier", tier],
                           cwd=vv, env=dict(env, VERIF_REPO=dst, PYTHONHASHSEED="0"), capture_output=True, text=True)
        keys = [l for l in r.stdout.splitlines() if l.startswith("violation keys")]
        res[c] = {"rc": r.returncode, "verdict": {0: "MISSED", 1: "CAUGHT", 2: "INCONCLUSIVE"}.get(r.returncode, "ERROR"),
                  "keys": keys[0][:600] if keys else ""}
    meta["checks"] = res
    valid = rc0 == 0 and rc1 != 0 and meta["steps"]["patch_applies"] and meta["steps"]["suite_ok"]
    meta["valid_seed"] = valid
    print(json.dumps(meta, indent=1))
    if valid or "--keep" in sys.argv:
        out = os.path.join(V, "seeded", name)
        os.makedirs(out, exist_ok=True)
        shutil.copy(os.path.join(src, patchf), os.path.join(out, "patch.diff"))
        shutil.copy(os.path.join(src, demof), os.path.join(out, "demo.py"))
        notes = os.path.join(src, "notes.md")
        if os.path.exists(notes):
            shutil.copy(notes, os.path.join(out, "notes.md"))
        meta["needs_to_manifest"] = "see notes.md"
        meta["ran"] = "tools/seed_verify.py: demo rc %d unchanged / %d changed; suite identical to baseline: %s; checks %s (tier %s)" % (
            rc0, rc1, meta["steps"]["suite_ok"], {k: v["verdict"] for k, v in res.items()}, tier)
        json.dump(meta, open(os.path.join(out, "meta.json"), "w"), indent=1)
finally:
    shutil.rmtree(tmp, ignore_errors=True)
