#!/usr/bin/env python
"""CLI: check.py <Cxx> [--tier quick|thorough] [--seed N] [--replay file] | --probe <finding-key>"""
import os
import sys
import importlib

sys.path.insert(0, os.path.dirname(os.path.dirname(os.path.abspath(__file__))))
from harness import common  # noqa: E402


def main():
    if len(sys.argv) < 2:
        print(__doc__)
        return 2
    prop = sys.argv[1].upper()
    mod = importlib.import_module("harness.props." + prop.lower())
    del sys.argv[1]
    if "--probe" in sys.argv:
        key = sys.argv[sys.argv.index("--probe") + 1]
        common.setup_env()
        try:
            rep = bool(mod.PROBES[key]())
        except Exception as e:  # a probe that crashes in an unexpected way does not "reproduce"
            print("PROBE error %r" % (e,))
            return 3
        print("PROBE %s %s" % ("reproduces" if rep else "gone", key))
        return 0
    return common.main(mod)


if __name__ == "__main__":
    sys.exit(main())
