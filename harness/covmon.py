"""Reach monitor: records which lines of a property's anchor files were executed during a shard, using sys.monitoring
LINE events with the return-DISABLE idiom (each location reports once, so the cost is negligible).  The parent merges the
shards and writes, per anchor file, executed/executable line counts and the names of anchor functions never entered."""
import os
import sys
import json

TOOL = 4
_state = {"files": {}, "on": False}


def executable_lines(path):
    """line numbers inside function bodies, and {function qualname: its body lines} for every function in the file"""
    try:
        src = open(path).read()
        top = compile(src, path, "exec")
    except (OSError, SyntaxError):
        return set(), {}
    lines, funcs = set(), {}
    stack = [top]
    while stack:
        co = stack.pop()
        ls = [l for (_, _, l) in co.co_lines() if l is not None]
        if co.co_flags & 0x1 and ls:  # CO_OPTIMIZED: function bodies only (module and class bodies run at import, before the monitor starts)
            body = sorted(set(ls))[1:] or sorted(set(ls))
            funcs.setdefault(co.co_qualname, set()).update(body)     # getter and setter of a property share one qualname
            lines.update(body)
        for c in co.co_consts:
            if hasattr(c, "co_lines"):
                stack.append(c)
    return lines, funcs


def start(repo, anchor_files):
    m = sys.monitoring
    wanted = {}
    for rel in anchor_files:
        p = os.path.realpath(os.path.join(repo, rel))
        if p.endswith(".py") and os.path.exists(p):
            wanted[p] = set()
    if not wanted:
        return
    _state["files"] = wanted
    try:
        m.use_tool_id(TOOL, "verif-covmon")
    except ValueError:
        return

    def on_line(code, line):
        s = wanted.get(code.co_filename)
        if s is None:
            s = wanted.get(os.path.realpath(code.co_filename))
        if s is not None:
            s.add(line)
        return m.DISABLE
    m.register_callback(TOOL, m.events.LINE, on_line)
    m.set_events(TOOL, m.events.LINE)
    _state["on"] = True


def stop():
    if not _state["on"]:
        return {}
    m = sys.monitoring
    m.set_events(TOOL, 0)
    m.register_callback(TOOL, m.events.LINE, None)
    m.free_tool_id(TOOL)
    _state["on"] = False
    return {p: sorted(v) for p, v in _state["files"].items()}


def _ranges(ls):
    out, i = [], 0
    while i < len(ls):
        j = i
        while j + 1 < len(ls) and ls[j + 1] <= ls[j] + 1:
            j += 1
        out.append(str(ls[i]) if i == j else "%d-%d" % (ls[i], ls[j]))
        i = j + 1
    return ",".join(out)


def summarise(repo, merged):
    """merged: {abs path: set(lines)} -> evidence dict"""
    out = {}
    tot_e = tot_x = 0
    for p, hit in sorted(merged.items()):
        ex, funcs = executable_lines(p)
        hit = set(hit) & ex if ex else set(hit)
        never = sorted(q for q, l in funcs.items() if not (l & hit) and not q.split(".")[-1].startswith("__") and "<" not in q)
        rel = os.path.relpath(p, os.path.realpath(repo))
        out[rel] = {"executed_lines": len(hit), "executable_lines": len(ex), "functions_never_entered": never[:40],
                    "lines_not_executed": _ranges(sorted(ex - hit))[:600]}
        tot_e += len(hit)
        tot_x += len(ex)
    return {"anchor_files": out, "anchor_line_reach": round(tot_e / tot_x, 3) if tot_x else None}
