"""G-IR: random netlists built through the public API from a seeded RNG.

Profiles restrict the generator to a property's quantifier domain:
  any      - unnamed elements, empty bundles, user data, top instance possibly also a child
  edif     - EDIF-expressible: everything named, non-empty bundles, scalar bundles based at 0
  flatten  - like edif; names free of '/' (it is, in all profiles)
Library dependencies are acyclic by construction (a cell only instantiates cells built earlier, and the
library index never decreases in build order)."""
import spydrnet as sdn

DIRS = None


def _dirs():
    return [sdn.IN, sdn.OUT, sdn.INOUT]


class Namer:
    def __init__(self, rng, style="simple"):
        self.r = rng
        self.style = style
        self.used = {}

    def __call__(self, scope, base):
        """A name unique (case-insensitively) within `scope` (any hashable)."""
        used = self.used.setdefault(scope, set())
        for k in range(100):
            nm = base if k == 0 else "%s_%d" % (base, k)
            if self.style == "mixed" and self.r.random() < 0.4:
                nm = "".join(c.upper() if self.r.random() < 0.5 else c.lower() for c in nm)
            if nm.lower() not in used:
                used.add(nm.lower())
                return nm
        raise RuntimeError("namer exhausted")


def generate(rng, profile="any", ndefs=None, nlibs=None, style="simple", max_children=4, share=0.5,
             outside=True, top_child_ok=False, name_netlist=True, big=None):
    r = rng
    strict = profile in ("edif", "flatten")
    # one netlist in twelve is "big": two-digit widths and sibling counts (indices and name suffixes gain a digit), one cell
    # instanced a dozen times, a chain of cells that adds hierarchy depth
    big = (r.random() < 0.06) if big is None else big
    if big:
        max_children = max(max_children, 10)
    nm = Namer(r, style)
    n = sdn.Netlist("net%d" % r.randrange(1000) if (name_netlist or strict) else None)
    nlibs = nlibs or r.choice([1, 2, 2, 3])
    libs = [n.create_library(nm("libs", "lib%d" % i)) for i in range(nlibs)]
    li = [0]

    def nextlib():
        if r.random() < 0.35:
            li[0] = r.randint(li[0], nlibs - 1)
        return libs[li[0]]

    def maybe(name):
        if strict or r.random() < 0.85:
            return name
        return None

    def mk_ports(d, lo, hi, inputs_outputs=True):
        for j in range(r.randint(lo, hi)):
            w = r.choice([1, 1, 1, 2, 3, 4])
            if big and r.random() < 0.3:
                w = r.choice([9, 10, 11, 17])
            arr1 = (w == 1 and r.random() < 0.25)
            kw = {}
            if w > 1 or arr1:
                kw["lower_index"] = r.choice([0, 0, 1, 3, 257])
                if r.random() < 0.3:
                    kw["is_downto"] = False
            if not strict and r.random() < 0.05:
                w = 0
            p = d.create_port(maybe(nm(("p", id(d)), r.choice(["p", "in", "out", "d", "q"]) + str(j))),
                              direction=r.choice(_dirs()), pins=w or None, **kw)
            if arr1:
                p.is_scalar = False
            if r.random() < 0.1:
                p["user.tag"] = {"w": w}

    defs = []
    nleaf = r.randint(1, 3)
    for k in range(nleaf):
        d = nextlib().create_definition(nm(("d", li[0]), "LEAF%d" % k))
        mk_ports(d, 1, 4)
        defs.append(d)
    ndefs = ndefs or r.randint(3, 9)
    for k in range(ndefs):
        base = "MOD%d" % k
        if nlibs > 1 and r.random() < 0.25:
            # a definition name may be used again in another library (a library is its own naming scope)
            base = r.choice(defs).name or base
        d = nextlib().create_definition(nm(("d", li[0]), base))
        mk_ports(d, 0 if k < ndefs - 1 else 1, 4)
        kind = r.random()
        nch = 0 if kind < 0.12 else r.randint(1, max_children)
        shared = None
        for j in range(nch):
            if shared is not None and r.random() < share:
                ref = shared
            else:
                ref = r.choice(defs)
                shared = ref
            props = None
            if r.random() < 0.3:
                plist = []
                for q in range(r.choice([1, 1, 2, 3])):
                    pr = {"identifier": "P%d" % q if q else "INIT", "value": r.choice([1, "8'h2A", True, "soft lut", 0, -3, -90, "X0\tY1"])}
                    if r.random() < 0.4:
                        pr["original_identifier"] = pr["identifier"] + r.choice([".o", "[0]", " x"])
                    plist.append(pr)
                props = {"EDIF.properties": plist}
            ch = d.create_child(maybe(nm(("i", id(d)), r.choice(["i", "u", "inst"]) + str(j))), reference=ref,
                                properties=props)
            if r.random() < 0.1:
                ch["user"] = [1, {"a": "b"}]
        if nch and nlibs > 1 and r.random() < 0.3:
            # two cells of the SAME NAME, one in this definition's own library and one in another library, instanced side by
            # side (own one first): whoever keys anything by cell name alone confuses them
            own = [x for x in defs if x.library is d.library and x.name]
            pairs = [(a_, b_) for a_ in own for b_ in defs if b_.library is not d.library and b_.name == a_.name]
            if pairs:
                a_, b_ = r.choice(pairs)
                d.create_child(maybe(nm(("i", id(d)), "same_own")), reference=a_)
                d.create_child(maybe(nm(("i", id(d)), "same_foreign")), reference=b_)
        ncab = r.randint(0 if nch else (1 if kind < 0.08 else 0), 11 if big else 5)
        for j in range(ncab):
            w = r.choice([1, 1, 1, 2, 3])
            if big and r.random() < 0.25:
                w = r.choice([9, 10, 12, 17])
            arr1 = (w == 1 and r.random() < 0.2)
            kw = {}
            if w > 1 or arr1:
                kw["lower_index"] = r.choice([0, 0, 2, 5, 300])     # (a base beyond 256: bit numbers that are no small integers)
            if not strict and r.random() < 0.04:
                w = 0
            cbase = r.choice(["c", "net", "w"]) + str(j)
            if (w > 1 or arr1) and r.random() < 0.15:
                cbase += "[%d]" % r.randint(0, 3)       # 2-D style bus base name
            c = d.create_cable(maybe(nm(("c", id(d)), cbase)), wires=w or None, **kw)
            if arr1:
                c.is_scalar = False
        # connect
        wires = [w for c in d.cables for w in c.wires]
        ipins = [p for port in d.ports for p in port.pins]
        opins = [op for ch in d.children for op in ch.pins]
        r.shuffle(ipins)
        r.shuffle(opins)
        if wires:
            # pass-through: two port pins on one wire
            if len(ipins) >= 2 and r.random() < 0.3:
                w = r.choice(wires)
                w.connect_pin(ipins.pop())
                w.connect_pin(ipins.pop())
            for p in ipins:
                if r.random() < 0.7:
                    r.choice(wires).connect_pin(p)
            for p in opins:
                if r.random() < 0.75:
                    r.choice(wires).connect_pin(p, position=r.choice([None, None, 0]))
        defs.append(d)
    if big and len(defs) >= 2:
        # depth: a chain of wrapper cells, each holding the previous one (and sometimes a second copy of it), below the last cell
        cur = defs[-2] if len(defs[-2].children) else r.choice(defs[:-1])
        for k in range(r.randint(2, 3)):
            wdef = cur.library.create_definition(nm(("d", libs.index(cur.library)), "WRAP%d" % k))
            mk_ports(wdef, 1, 2)
            wdef.create_child(maybe(nm(("i", id(wdef)), "w0")), reference=cur)
            if r.random() < 0.25:
                wdef.create_child(maybe(nm(("i", id(wdef)), "w1")), reference=cur)
            cur = wdef
        if cur.library is defs[-1].library or not strict or True:
            defs[-1].create_child(maybe(nm(("i", id(defs[-1])), "deep")), reference=cur)
    top = defs[-1]
    if nlibs > 1 and top.name and r.random() < 0.3:
        # a decoy: an unused definition with the top definition's name in another library
        others = [k for k in range(nlibs) if libs[k] is not top.library]
        k = r.choice(others)
        if (top.name.lower()) not in nm.used.get(("d", k), ()):
            dec = libs[k].create_definition(nm(("d", k), top.name))
            mk_ports(dec, 1, 2)
    if r.random() < 0.2:
        # a library declared LAST that is needed only through a cell whose name also exists in the library that needs it
        users = [x for x in defs if x.children and x.library is not None and
                 any(c.reference.library is x.library and c.reference.name for c in x.children)]
        if users:
            u_ = r.choice(users)
            own = r.choice([c.reference for c in u_.children if c.reference.library is u_.library and c.reference.name])
            late = n.create_library(nm("libs", "late_prims"))
            twin = late.create_definition(own.name)
            mk_ports(twin, 1, 2)
            u_.create_child(maybe(nm(("i", id(u_)), "uses_late_twin")), reference=twin)
    if outside and r.random() < 0.4:
        # instances outside the top hierarchy sharing definitions with it
        d = libs[-1].create_definition(nm(("d", nlibs - 1), "OUTSIDE"))
        for j in range(r.randint(1, 3)):
            d.create_child(nm(("i", id(d)), "o%d" % j), reference=r.choice(defs[:-1]))
    if top_child_ok and r.random() < 0.4 and len(defs) > 2:
        # the top instance is also a child of a definition - and wired there like any other child
        holder = libs[-1].create_definition(nm(("d", nlibs - 1), "HOLDER"))
        inst = holder.create_child("top", reference=top)
        hw = holder.create_cable("holder_net", wires=2)
        for k_, op_ in enumerate(list(inst.pins)):
            if r.random() < 0.7:
                hw.wires[k_ % 2].connect_pin(op_)
        n.top_instance = inst
    else:
        n.top_instance = top
        n.top_instance.name = "top"
    if r.random() < 0.5:
        L = list(n.libraries)
        r.shuffle(L)
        n.libraries = L
    for l in n.libraries:
        if r.random() < 0.5:
            L = list(l.definitions)
            r.shuffle(L)
            l.definitions = L
    return n


def shape_stats(n):
    defs = [d for l in n.libraries for d in l.definitions]
    depth = {}

    def dep(d):
        if id(d) in depth:
            return depth[id(d)]
        depth[id(d)] = 0
        v = 0
        for c in d.children:
            if c.reference is not None:
                v = max(v, 1 + dep(c.reference))
        depth[id(d)] = v
        return v
    top = n.top_instance.reference if n.top_instance is not None else None
    return {
        "libs": len(n.libraries), "defs": len(defs),
        "insts": sum(len(d.children) for d in defs),
        "wires": sum(len(c.wires) for d in defs for c in d.cables),
        "depth": dep(top) if top is not None else 0,
        "shared": sum(1 for d in defs if len(d.references) > 1),
    }


def graft_foreign_policy_definition(rng, n, policy, tag="G"):
    """A definition populated stand-alone under the OTHER naming policy (named ports / cables / instances that also carry
    legal, case-insensitively distinct EDIF identifiers) is added to a library of `n` (built under `policy`): the add
    re-applies n's policy to the whole subtree.  Returns the definition or None when refused / not applicable."""
    other = "DEFAULT" if policy == "EDIF" else "EDIF"
    libs = [l for l in n.libraries]
    if not libs:
        return None
    lib = rng.choice(libs)
    topd = n.top_instance.reference if n.top_instance is not None else None
    # same library only (no new library dependency), never the top definition (no recursion once the top uses the graft)
    leafs = [d for d in lib.definitions if not d.children and d.name and d is not topd]
    old = sdn.namespace_manager.default
    sdn.namespace_manager.default = other
    try:
        g = sdn.Definition("%s_graft%d" % (tag, rng.randrange(1000)))
        g["EDIF.identifier"] = "%sgraft_id%d" % (tag, rng.randrange(1000))
        for k in range(rng.randint(1, 3)):
            p = g.create_port("gp%d" % k, pins=rng.choice([1, 2]), direction=rng.choice(_dirs()))
            p["EDIF.identifier"] = "gp%d_id" % k
        for k in range(rng.randint(1, 3)):
            c = g.create_cable("gnet%d" % k, wires=rng.choice([1, 1, 2]))
            c["EDIF.identifier"] = "gnet%d_id" % k
        for k in range(rng.randint(0, 2)):
            if leafs:
                i = g.create_child("gi%d" % k, reference=rng.choice(leafs))
                i["EDIF.identifier"] = "gi%d_id" % k
        wires = [w for c in g.cables for w in c.wires]
        for p in g.ports:
            for pin in p.pins:
                if rng.random() < 0.7:
                    rng.choice(wires).connect_pin(pin)
    finally:
        sdn.namespace_manager.default = old
    try:
        lib.add_definition(g)
    except ValueError:
        return None
    return g
