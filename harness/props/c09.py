"""C09 - flatten removes all hierarchy and preserves leaf-level connectivity.

Monitor: independent elaboration before flatten (leaf occurrences by slash-joined instance path, partition of
leaf-pin / top-port-bit endpoints) vs a DIRECT reading of the flat top definition after flatten (no recursion:
each wire of the top definition is one net); leaf multiset incl. definition and data; no hierarchical child left;
well-formedness; step budget on flatten's work-list; C01/C02 invariants at outermost mutator exits inside flatten."""
import copy

from .. import common

common.setup_env()
import spydrnet as sdn  # noqa: E402
from spydrnet.uniquify import uniquify  # noqa: E402
from spydrnet.flatten import flatten  # noqa: E402
from spydrnet.ir.outerpin import OuterPin as BaseOuterPin  # noqa: E402

from .. import gen_ir, wf, probes, budget  # noqa: E402
from ..elab import Elab, is_leaf_def as elab_is_leaf  # noqa: E402
from ..universe import Universe  # noqa: E402

PROP = "C09"
LEVEL = "exploration"
RULE = ("case = one generated flatten-ready netlist (named instances/cables, depth up to 5, feed-through and wire-only "
        "cells, inner nets tied to several ports, ports unconnected inside or outside, buses; every third with EDIF identifiers "
        "on its elements; every sixth case a bundled EDIF example as read by the EDIF reader) -> uniquify -> flatten; "
        "distinct = shape+partition hash; non-trivial = hierarchy depth >= 2 and at least one endpoint class that "
        "crosses two or more levels (contains endpoints of different path lengths or top port bits and depth>=2 leaves)")
ASSUMPTIONS = ["instance and cable names contain no '/' except as the first character of a name directly under the top", "netlist uniquified first (quantifier of C09)"]
REQUIRED = {"flattened": 100, "endpoint_classes_compared": 1000, "leaf_occurrences_compared": 500,
            "netlists_with_identifiers": 30, "reader_produced_netlists": 10,
            "bus_ports_reordered_after_instancing": 40}
PROBES = {}
IGNORED_KEYS = (".NAME", "EDIF.identifier", ".NS")


def plan(tier):
    if tier == "thorough":
        return {"cases": 16 * 1200, "shards": 16, "shard_budget_s": 1500, "watchdog_s": 2400}
    return {"cases": 240, "shards": 4, "shard_budget_s": 200, "watchdog_s": 600}


def data_of(x):
    return repr(sorted(((k, copy.deepcopy(x[k])) for k in x if k not in IGNORED_KEYS), key=repr))


def read_flat(n):
    top = n.top_instance.reference
    leaves = {}
    non_leaf = []
    for c in top.children:
        if c.reference is None or not elab_is_leaf(c.reference):
            non_leaf.append(c.name)
        leaves[c.name] = (id(c.reference), data_of(c))
    classes = []
    seen = set()
    for cab in top.cables:
        for w in cab.wires:
            g = set()
            for p in w.pins:
                if isinstance(p, BaseOuterPin):
                    g.add((p.instance.name, id(p.inner_pin)))
                else:
                    g.add(("", id(p)))
            for e in g:
                seen.add(e)
            if g:
                classes.append(frozenset(g))
    for port in top.ports:
        for ip in port.pins:
            if ("", id(ip)) not in seen:
                classes.append(frozenset([("", id(ip))]))
    for c in top.children:
        if c.reference is not None:
            for port in c.reference.ports:
                for ip in port.pins:
                    if (c.name, id(ip)) not in seen:
                        classes.append(frozenset([(c.name, id(ip))]))
    return leaves, non_leaf, classes, len(top.children)


def bundled_edf(max_size):
    import glob
    import os
    fs = sorted(glob.glob(os.path.join(common.REPO, "example_netlists", "EDIF_netlists", "*.edf.zip")))
    return [f for f in fs if 0 < os.path.getsize(f) <= max_size]


def run_case(ctx, i, rng):
    if i % 6 == 5:
        # a reader-produced netlist (EDIF policy, every element carries an EDIF.identifier): the everyday input of flatten
        import os
        fs = bundled_edf(6000 if ctx.tier == "quick" else 40000)
        f = fs[rng.randrange(len(fs))]
        try:
            n = sdn.parse(f)
        except Exception:  # noqa: BLE001 - the emptied example archives
            ctx.count("bundled_not_parsed")
            return
        if n.top_instance is None or any(c.name is None for l in n.libraries for d in l.definitions for c in list(d.children) + list(d.cables)):
            ctx.count("bundled_out_of_domain")
            return
        ctx.count("reader_produced_netlists")
        ctx.count("bundled:" + os.path.basename(f))
        if rng.random() < 0.5:
            # long (generate-style) instance and net names: every name is legal, the flat path names get longer than any
            # identifier may be
            k_ = 0
            for l_ in n.libraries:
                for d_ in l_.definitions:
                    for x_ in list(d_.children) + list(d_.cables)[:2]:
                        if x_.name and len(x_.name) < 60 and not (isinstance(x_, sdn.Cable) and len(x_.wires) != 1):
                            try:
                                x_.name = x_.name + "_gen_" + "blk%d_" % k_ * rng.randint(12, 25)
                                k_ += 1
                            except ValueError:
                                pass
            ctx.count("long_names_under_the_edif_policy", k_)
    else:
        n = gen_ir.generate(rng, profile="flatten", share=0.6, ndefs=rng.randint(3, 9), max_children=rng.choice([2, 3, 4]),
                            outside=(i % 4 == 0), big=(i % 40 == 7))
        if i % 3 == 1:
            # like a netlist that was read from EDIF or exported once: elements carry EDIF identifiers
            for l in n.libraries:
                for d_ in l.definitions:
                    for x_ in [d_] + list(d_.children) + list(d_.cables) + list(d_.ports):
                        if x_.name and rng.random() < 0.8:
                            x_["EDIF.identifier"] = x_.name.replace("[", "_").replace("]", "_")
            ctx.count("netlists_with_identifiers")
    if i % 5 == 2:
        # names are free text: an instance or cable directly under the top may itself start with the path separator
        topd = n.top_instance.reference
        for x_ in list(topd.children)[:2] + list(topd.cables)[:1]:
            if x_.name and not x_.name.startswith("/") and "EDIF.identifier" not in x_:
                try:
                    x_.name = "/" + x_.name
                    ctx.count("top_level_names_starting_with_separator")
                except ValueError:
                    pass
    uniquify(n)
    if Universe.of(n).size() > 2500:
        ctx.count("discarded_too_large")        # (flatten under the invariant hooks is quadratic: keep the case inside its time slot)
        return
    if i % 5 == 4 or i % 7 == 3:
        # names are free text: below an instance X two siblings may be called  b  and  X/b  (the flat names X/b and X/X/b differ)
        for l_ in n.libraries:
            for d_ in l_.definitions:
                for x_ in list(d_.children):
                    r_ = x_.reference
                    if r_ is None or elab_is_leaf(r_) or not x_.name or any(c_.name == x_.name for c_ in r_.children):
                        continue
                    for coll in (list(r_.children), list(r_.cables)):
                        cands = [y_ for y_ in coll if y_.name and "EDIF.identifier" not in y_ and "/" not in y_.name]
                        if len(cands) >= 2 and rng.random() < 0.7:
                            b1, b2 = rng.sample(cands, 2)
                            try:
                                b2.name = x_.name + "/" + b1.name
                                ctx.count("siblings_named_like_a_flat_path")
                            except ValueError:
                                pass
    if i % 4 == 1 or i % 9 == 5:
        # the bits of a bus port put into another order AFTER the cell was instanced (reorder-only setter; a pin moved to the
        # front): every connection hangs on the pin objects, so the design is the same - the instances' pin tables, filled
        # when the instance was pointed at the cell, now list the pins in the old order
        for l_ in n.libraries:
            for d_ in l_.definitions:
                if elab_is_leaf(d_) or not d_.references or d_ is n.top_instance.reference:
                    continue
                for p_ in d_.ports:
                    if len(p_.pins) >= 2 and rng.random() < 0.7:
                        if rng.random() < 0.6:
                            order_ = list(p_.pins)
                            while order_ == list(p_.pins):
                                rng.shuffle(order_)
                            p_.pins = order_
                        else:
                            pin_ = p_.pins[-1]
                            order_ = [pin_] + [q_ for q_ in p_.pins if q_ is not pin_]
                            p_.pins = order_
                        ctx.count("bus_ports_reordered_after_instancing")
    if i % 6 == 3:
        # cell names are unique per LIBRARY only, and need not exist: two hierarchical cells below the top that carry the same name
        # (in two libraries), or no name at all
        hier_ = [d_ for l_ in n.libraries for d_ in l_.definitions if not elab_is_leaf(d_) and d_.references and d_ is not n.top_instance.reference]
        if len(hier_) >= 2:
            a_, b_ = rng.sample(hier_, 2)
            try:
                if a_.library is not b_.library and a_.name and rng.random() < 0.6:
                    if "EDIF.identifier" in b_:
                        b_.pop("EDIF.identifier")
                    b_.name = a_.name
                    ctx.count("hierarchical_cells_sharing_a_name_across_libraries")
                else:
                    for d_ in (a_, b_):
                        if d_.name is not None:
                            del d_.name
                    ctx.count("hierarchical_cells_without_a_name", 2)
            except ValueError:
                pass
    if i % 7 == 4 or i % 11 == 6:
        # a hierarchical cell turned into a black box AFTER it was looked at (uniquify asked whether it is a leaf): its contents
        # are taken out with the bulk calls, its ports stay
        topd_ = n.top_instance.reference
        hier_ = [c_.reference for c_ in topd_.children if c_.reference is not None and not elab_is_leaf(c_.reference) and c_.reference is not topd_]
        for d_ in hier_[:2]:
            for c_ in d_.cables:
                for w_ in c_.wires:
                    for p_ in list(w_.pins):
                        w_.disconnect_pin(p_)
            kids_ = list(d_.children)
            d_.remove_cables_from(list(d_.cables))
            d_.remove_children_from(kids_ if rng.random() < 0.5 else set(kids_))
            for k_ in kids_:
                k_.reference = None
            ctx.count("cells_emptied_by_bulk_removal")
    if not flatten_phase(ctx, n, rng, i):
        return
    if i % 6 == 5 or i % 3 == 1:
        # the flat netlist (its elements now carry the identifiers flatten minted) is extended by a new piece of hierarchy and
        # flattened again in the same process
        top = n.top_instance.reference
        leafs = [c.reference for c in top.children if c.reference is not None and elab_is_leaf(c.reference) and c.reference.library is not None]
        if not leafs:
            return
        lib = top.library
        # identifiers of the kind flatten mints, numbered just beyond those already present - as in a netlist that was
        # flattened in ANOTHER session (the numbering restarts with every process), written, read back and now extended
        import re as _re
        nums = [int(m_.group(1)) for x_ in list(top.cables) + list(top.children) if "EDIF.identifier" in x_
                for m_ in [_re.fullmatch(r"(?:cable|instance)_sdn_flat_(\d+)", str(x_["EDIF.identifier"]))] if m_]
        ahead = (max(nums) + 1) if nums else 0
        try:
            ext = lib.create_definition("EXT_%d" % i)
            ext["EDIF.identifier"] = "EXT_%d" % i
            pin_ = ext.create_port("ein", pins=1, direction=sdn.IN)
            pin_["EDIF.identifier"] = "ein"
            kids = []
            for k_ in range(rng.randint(1, 3)):
                lf = rng.choice(leafs)
                if lf.library is not lib and lf.library is not None and False:
                    continue
                ch = ext.create_child("e%d" % k_, reference=lf)
                ch["EDIF.identifier"] = "e%d" % k_
                kids.append(ch)
            for k_ in range(rng.randint(1, 3)):
                cb = ext.create_cable("enet%d" % k_, wires=1)
                cb["EDIF.identifier"] = "cable_sdn_flat_%d" % (ahead + rng.randrange(0, 12))
                w_ = cb.wires[0]
                if k_ == 0:
                    w_.connect_pin(pin_.pins[0])
                for ch in kids:
                    free = [op for op in ch.pins if op.wire is None]
                    if free and rng.random() < 0.6:
                        w_.connect_pin(rng.choice(free))
            for k_, c_ in enumerate([c_ for c_ in top.cables if "EDIF.identifier" in c_][:3]):
                if k_ == 2:
                    # ... and one with a number that has a digit LESS than the others (sessions differ in size)
                    if ahead >= 10 and rng.random() < 0.6:
                        c_["EDIF.identifier"] = "cable_sdn_flat_%s" % ("9" * (len(str(ahead)) - 1))
                        ctx.count("top_level_identifiers_with_fewer_digits")
                elif rng.random() < 0.5:
                    c_["EDIF.identifier"] = "cable_sdn_flat_%d" % (ahead + 12 + k_ + rng.randrange(0, 20))
                    ctx.count("top_level_identifiers_from_another_session")
            for k_ in range(rng.randint(1, 2)):
                x_ = top.create_child("ext%d" % k_, reference=ext)
                x_["EDIF.identifier"] = "ext%d" % k_
                tw = [w for c in top.cables for w in c.wires]
                if tw:
                    rng.choice(tw).connect_pin(x_.pins[pin_.pins[0]])
        except ValueError:
            ctx.count("extension_refused_by_naming")
            return
        ctx.count("netlists_extended_and_flattened_again")
        uniquify(n)
        flatten_phase(ctx, n, rng, i, "second-flatten:")


def flatten_phase(ctx, n, rng, i, tag=""):
    """uniquified netlist -> flatten under the monitors; True when everything held"""
    e0 = Elab(n, max_occ=2500)
    if e0.truncated:
        ctx.count("discarded_too_large")
        return False
    st = gen_ir.shape_stats(n)
    key = lambda p: "/".join(x.name for x in p)  # noqa: E731
    want_leaves = {key(p): (id(p[-1].reference), data_of(p[-1])) for p in e0.leaf_occ}
    want_part = e0.partition(key)
    depth = max([len(p) for p in e0.occ] or [0])
    by_pid = {Elab.pid(p): p for p in e0.occ}
    by_pid[()] = ()
    crossing = 0
    groups = {}
    for e in e0.endpoints:
        groups.setdefault(e0.uf.find(e), set()).add(len(e[1]))
    crossing = sum(1 for g in groups.values() if len(g) > 1 or (g and max(g) >= 2))
    u = Universe.of(n)
    probes.install()
    hook_state = {"n": 0, "bad": None}

    def post(label, a, k, r, e):
        hook_state["n"] += 1
        if hook_state["bad"] is None and hook_state["n"] % max(5, u.size() // 100) == 0:
            with budget.paused():
                u.close()
                errs = wf.check_c01(u) + wf.check_c02(u)
                ctx.count("embedded_invariant_evals")
                if errs:
                    hook_state["bad"] = (label, errs[0])
    probes.State.post.append(post)
    try:
        with budget.StepBudget(max(2_000_000, 400 * len(e0.occ) * 200, 60 * Universe.of(n).size() ** 2)) as b:      # (the hooks' own walks count too: quadratic)
            try:
                flatten(n)
            except budget.StepBudgetExceeded:
                ctx.violation(tag + "flatten-does-not-terminate", "step budget %d exceeded on %s" % (b.limit, st))
                return False
            except Exception as ex:  # noqa: BLE001
                ctx.violation(tag + "flatten-raised:%s" % type(ex).__name__, "%r at %s on %s" % (ex, probes.innermost_frame(ex), st))
                return False
    finally:
        probes.reset_hooks()
    ctx.count("flattened")
    ctx.count("flatten_steps", b.count)
    if hook_state["bad"]:
        ctx.violation(tag + "invariant-inside-flatten:%s" % hook_state["bad"][1][0], "%s at exit of %s" % (hook_state["bad"][1][1], hook_state["bad"][0]))
        return False
    leaves, non_leaf, classes, nchildren = read_flat(n)
    if non_leaf:
        ctx.violation(tag + "hierarchy-remains", "non-leaf children of the top after flatten: %s | %s" % (non_leaf[:4], st))
        return False
    ctx.count("leaf_occurrences_compared", len(want_leaves))
    if nchildren != len(want_leaves) or leaves != want_leaves:
        missing = sorted(set(want_leaves) - set(leaves))[:4]
        extra = sorted(set(leaves) - set(want_leaves))[:4]
        diff = [k for k in want_leaves if k in leaves and leaves[k] != want_leaves[k]][:4]
        ctx.violation(tag + "leaf-set-changed", "leaves differ: missing %s extra %s changed def/data %s (children=%d, wanted=%d) | %s" % (
            missing, extra, diff, nchildren, len(want_leaves), st))
        return False
    ctx.count("endpoint_classes_compared", len(want_part))
    got = set(classes)
    if len(got) != len(classes) or got != want_part:
        a, b2 = want_part - got, got - want_part
        ctx.violation(tag + "connectivity-changed", "endpoint partition differs: %d classes only before (sizes %s), %d only after (sizes %s) | %s" % (
            len(a), sorted(len(x) for x in a)[:6], len(b2), sorted(len(x) for x in b2)[:6], st))
        return False
    errs = wf.self_contained(n)
    if errs:
        ctx.violation(tag + "ill-formed:" + errs[0][0], "%s after flatten | %s" % (errs[0][1], st))
        return False
    ctx.fingerprint((st, sorted(len(c) for c in want_part)), depth >= 2 and crossing >= 1)
    if i < 3:
        ctx.sample({"shape_before": st, "leaf_occurrences": len(want_leaves), "endpoint_classes": len(want_part),
                    "classes_crossing_levels": crossing, "depth": depth, "example_leaf_paths": sorted(want_leaves)[:5]})
    return True
