"""C11 - hierarchical references enumerate each occurrence exactly once and are canonical.

Monitor: results of get_hinstances/hports/hpins/hcables/hwires compared, as multisets of item sequences, with
an independent recursive enumeration of the elaborated design (netlist root, recursive on/off; element roots:
the paths ending in that element; HRef roots: the sub-tree); every returned reference must be valid, carry the
oracle's name, and be the flyweight object; after random breaking edits every held reference's is_valid /
is_unique is compared with a recomputation on the current netlist."""
import collections

from .. import common

common.setup_env()
import spydrnet as sdn  # noqa: E402
from spydrnet.util.hierarchical_reference import HRef  # noqa: E402

from .. import gen_ir  # noqa: E402
from ..elab import enumerate_occurrences  # noqa: E402

PROP = "C11"
LEVEL = "exploration"
RULE = ("case = one generated netlist (shared definitions at several depths, leaf and wire-only cells, unnamed items, "
        "array/scalar/empty bundles, optional top instance that is also a child) x {5 netlist-root enumerations x "
        "recursive on/off, element-root queries for sampled instances/definitions/libraries/ports/pins/cables/wires/outer "
        "pins, HRef-root queries} followed by 5-20 breaking edits with re-evaluation of all held references; distinct = "
        "shape hash; non-trivial = some definition reached by >=2 paths and >=150 references enumerated")
ASSUMPTIONS = ["is_unique means: valid and the reference's innermost instance is reached by exactly one path from the top "
               "(instance-occurrence reading, matches the class documentation; see DESIGN.md C11)"]
REQUIRED = {"enumerations_compared": 1000, "refs_checked": 10000, "post_edit_evaluations": 20000, "element_root_queries": 2000,
            "instance_then_definition_root_queries": 100}
PROBES = {}
FUNCS = None


def plan(tier):
    if tier == "thorough":
        return {"cases": 16 * 500, "shards": 16, "shard_budget_s": 1500, "watchdog_s": 2400}
    return {"cases": 200, "shards": 4, "shard_budget_s": 200, "watchdog_s": 600}


def seq(h):
    s = []
    while h is not None:
        s.append(h.item)
        h = h.parent
    return tuple(reversed(s))


def ids(s):
    return tuple(id(x) for x in s)


def oracle_name(s):
    names = []
    for x in s[1:]:
        if isinstance(x, (sdn.Instance, sdn.Port, sdn.Cable)):
            names.append(x.name if x.name is not None else "")
    nm = "/".join(names)
    last = s[-1]
    if isinstance(last, sdn.Wire) and last.cable.is_array:
        nm += "[%d]" % (last.cable.lower_index + list(last.cable.wires).index(last))
    if isinstance(last, sdn.InnerPin) and last.port.is_array:
        nm += "[%d]" % (last.port.lower_index + list(last.port.pins).index(last))
    return nm


def occ_sets(n):
    occ = enumerate_occurrences(n)
    return {k: collections.Counter(ids(s) for s in v) for k, v in occ.items()}, occ


def valid_oracle(s, allocc):
    t = s[0]
    if not isinstance(t, sdn.Instance):
        return False
    r = t.reference
    if r is None or r.library is None or r.library.netlist is None or r.library.netlist.top_instance is not t:
        return False
    return ids(s) in allocc


def all_occ(n):
    occ = enumerate_occurrences(n)
    out = set()
    for v in occ.values():
        for s in v:
            out.add(ids(s))
    inst_paths = collections.Counter(id(s[-1]) for s in occ["instances"])
    return out, inst_paths


def contains(e, d, seen=None):
    """True when definition e is d or (transitively) instantiates d: re-pointing a child of d to e would recurse."""
    if e is d:
        return True
    seen = seen if seen is not None else set()
    if id(e) in seen:
        return False
    seen.add(id(e))
    return any(c.reference is not None and contains(c.reference, d, seen) for c in e.children)


def cmp(ctx, what, got_hrefs, want_counter):
    got = collections.Counter(ids(seq(h)) for h in got_hrefs)
    ctx.count("enumerations_compared")
    if got != want_counter:
        missing = sum((want_counter - got).values())
        extra = sum((got - want_counter).values())
        dup = sum(1 for v in got.values() if v > 1)
        return "%s: %d missing, %d extra (%d returned more than once); expected %d got %d" % (
            what, missing, extra, dup, sum(want_counter.values()), sum(got.values()))
    return None


def _q(rng, ctx, fn, root, **kw):
    """the module-level query or, one time in four, the shortcut method of the same name on the root element itself"""
    m = getattr(root, fn.__name__, None) if not isinstance(root, (list, tuple, set)) else None
    if callable(m) and rng.random() < 0.25:
        ctx.count("queries_through_the_shortcut_method")
        return m(**kw)
    return fn(root, **kw)


def run_case(ctx, i, rng):
    n = gen_ir.generate(rng, profile="any" if i % 2 else "edif", share=0.6, ndefs=rng.randint(4, 12), max_children=rng.choice([3, 4, 5]),
                        top_child_ok=(i % 5 == 0), style="mixed" if i % 3 == 0 else "simple")
    if i % 10 == 7 and n.top_instance is not None and n.top_instance.reference is not None:
        # many siblings: a cell with dozens of instances of one leaf, itself used twice (paths that differ in two places)
        topd_ = n.top_instance.reference
        lib_ = topd_.library
        leafs_ = [d_ for l_ in n.libraries for d_ in l_.definitions if d_.is_leaf() and d_ is not topd_ and len(d_.ports)]
        if lib_ is not None and leafs_:
            fan = lib_.create_definition("FANOUT_%d" % i)
            lf_ = rng.choice(leafs_)
            fc = fan.create_cable("fnet", wires=1)
            for k_ in range(rng.choice([33, 40, 64, 100])):
                ch_ = fan.create_child("s%d" % k_, reference=lf_)
                first_ = next(iter(ch_.pins), None)       # (a leaf may have ports without pins)
                if k_ % 7 == 0 and first_ is not None:
                    fc.wires[0].connect_pin(first_)
            topd_.create_child("fan_a", reference=fan)
            topd_.create_child("fan_b", reference=fan)
            ctx.count("netlists_with_dozens_of_siblings")
    if i % 4 == 3:
        n = n.clone()           # a cloned netlist is a netlist like any other: its occurrences are enumerated and valid
        ctx.count("cloned_netlists_queried")
    elif i % 4 == 1 and n.top_instance is not None and n.top_instance.reference is not None:
        # re-rooted through set_top_instance(<Instance>): the current top is whatever the netlist says it is
        t_ = sdn.Instance(n.top_instance.name)
        t_.reference = n.top_instance.reference
        n.set_top_instance(t_)
        ctx.count("netlists_rerooted_by_set_top_instance")
    st = gen_ir.shape_stats(n)
    want, occ = occ_sets(n)
    if sum(len(v) for v in occ.values()) > 30000:
        ctx.count("discarded_too_large")
        return
    top = n.top_instance
    Q = {"instances": sdn.get_hinstances, "ports": sdn.get_hports, "pins": sdn.get_hpins, "cables": sdn.get_hcables,
         "wires": sdn.get_hwires}
    held = []
    pre_held = []
    if i % 3 == 0 and top is not None and top.reference is not None:
        # references built from explicit paths BEFORE any enumeration and kept alive: the enumerations below must hand back these very
        # objects, hanging off the canonical references of their prefixes (own generator: no draw of rng moves)
        import random as _random
        pr_ = _random.Random(i * 7919 + 13)
        for _ in range(4):
            path_ = [top]
            for _d in range(pr_.choice([1, 2, 3])):
                kids_ = [c_ for c_ in path_[-1].reference.children if c_.reference is not None]
                if not kids_:
                    break
                path_.append(pr_.choice(kids_))
            d_ = path_[-1].reference
            tails_ = [[c_, w_] for c_ in d_.cables for w_ in c_.wires] + [[p_, q_] for p_ in d_.ports for q_ in p_.pins]
            if tails_:
                path_ += pr_.choice(tails_)
            if len(path_) >= 3:
                pre_held.append(HRef.from_sequence(path_))
                ctx.count("refs_prebuilt_from_sequence")
    # A. netlist root (the five enumerations in a random order: whichever runs first creates the references)
    order = list(Q.items())
    rng.shuffle(order)
    for kind, f in order:
        w = collections.Counter(want[kind])
        if kind == "instances":
            w.pop((id(top),), None)
        res = list(f(n, recursive=True))
        e = cmp(ctx, "get_h%s(netlist, recursive=True)" % kind, res, w)
        if e:
            ctx.violation("enumeration-netlist-recursive:%s" % kind, "%s | %s" % (e, st))
            return
        held += res
        depth1 = 2 if kind == "instances" else {"ports": 2, "cables": 2, "pins": 3, "wires": 3}[kind]
        w1 = collections.Counter({k: v for k, v in w.items() if len(k) == depth1})
        e = cmp(ctx, "get_h%s(netlist, recursive=False)" % kind, list(f(n, recursive=False)), w1)
        if e:
            ctx.violation("enumeration-netlist-flat:%s" % kind, "%s | %s" % (e, st))
            return
    # B. canonical form of every (sampled) reference
    allocc, inst_paths = all_occ(n)
    sample = (held if len(held) <= 400 else rng.sample(held, 400)) + pre_held
    for h in sample:
        s = seq(h)
        ctx.count("refs_checked")
        if not h.is_valid:
            ctx.violation("returned-reference-invalid", "%s reference reported invalid | %s" % (type(s[-1]).__name__, st))
            return
        nm = oracle_name(s)
        if h.name != nm:
            ctx.violation("name-mismatch", "name %r, expected %r" % (h.name, nm))
            return
        h2 = HRef.from_sequence(list(s))
        h3 = HRef.from_sequence(list(s))
        if h2 is not h or h3 is not h or hash(h2) != hash(h) or h2 != h:
            ctx.violation("flyweight-broken", "from_sequence gives a different object/hash for the same path (%s)" % type(s[-1]).__name__)
            return
        # ... and the same for every prefix of the path: the references a returned reference hangs off
        par, depth_ = h.parent, len(s) - 1
        while par is not None and depth_ > 0:
            ctx.count("ancestor_refs_checked")
            ps = s[:depth_]
            if seq(par) != ps:
                ctx.violation("parent-chain-broken", "the parent of a %s reference does not denote the prefix of its path" % type(s[-1]).__name__)
                return
            if HRef.from_sequence(list(ps)) is not par:
                ctx.violation("flyweight-broken:ancestor", "the %s reference at depth %d hangs off a reference that is not THE reference of that path "
                              "(from_sequence returns another object; first enumeration was get_h%s)" % (type(s[-1]).__name__, depth_, order[0][0]))
                return
            par, depth_ = par.parent, depth_ - 1
        li = [x for x in s if isinstance(x, sdn.Instance)][-1]
        u = inst_paths[id(li)] == 1
        if h.is_unique != u:
            ctx.violation("is_unique-mismatch", "is_unique=%s but innermost instance %r is reached by %d paths" % (
                h.is_unique, li.name, inst_paths[id(li)]))
            return
    # C. element roots: the paths that end in the element
    by_last = {}
    for kind, v in occ.items():
        for s in v:
            by_last.setdefault((kind, id(s[-1])), collections.Counter())[ids(s)] += 1
    defs = [d for l in n.libraries for d in l.definitions]

    def pick(lst, k):
        lst = list(lst)
        return lst if len(lst) <= k else rng.sample(lst, k)
    for d in pick(defs, 6):
        for x in pick(d.children, 3):
            ctx.count("element_root_queries")
            e = cmp(ctx, "get_hinstances(instance)", list(_q(rng, ctx, sdn.get_hinstances, x)), by_last.get(("instances", id(x)), collections.Counter()))
            if e:
                ctx.violation("element-root:instance", "%s | %s" % (e, st))
                return
        for p in pick(d.ports, 2):
            ctx.count("element_root_queries")
            e = cmp(ctx, "get_hports(port)", list(_q(rng, ctx, sdn.get_hports, p)), by_last.get(("ports", id(p)), collections.Counter()))
            if e:
                ctx.violation("element-root:port", "%s | %s" % (e, st))
                return
            for x in pick(p.pins, 2):
                ctx.count("element_root_queries")
                e = cmp(ctx, "get_hpins(inner pin)", list(_q(rng, ctx, sdn.get_hpins, x)), by_last.get(("pins", id(x)), collections.Counter()))
                if e:
                    ctx.violation("element-root:pin", "%s | %s" % (e, st))
                    return
        # a port / pin as the root of get_hcables, get_hwires: the cables (wires) it is joined to inside its definition, once per
        # occurrence of that definition
        d_occ = [sq for sq in occ["instances"] if sq[-1].reference is d]
        if top.reference is d:
            d_occ.append((top,))
        for p in pick(d.ports, 2):
            wc, ww = collections.Counter(), collections.Counter()
            for sq in d_occ:
                for ip_ in p.pins:
                    if ip_.wire is not None:
                        wc[ids(sq + (ip_.wire.cable,))] = 1
                        ww[ids(sq + (ip_.wire.cable, ip_.wire))] = 1
            ctx.count("element_root_queries", 2)
            ctx.count("port_root_cable_queries", 2)
            e = cmp(ctx, "get_hcables(port)", list(_q(rng, ctx, sdn.get_hcables, p)), wc) or cmp(ctx, "get_hwires(port)", list(_q(rng, ctx, sdn.get_hwires, p)), ww)
            if e:
                ctx.violation("element-root:port-cables", "%s | %s" % (e, st))
                return
        for c in pick(d.cables, 2):
            ctx.count("element_root_queries")
            e = cmp(ctx, "get_hcables(cable)", list(_q(rng, ctx, sdn.get_hcables, c)), by_last.get(("cables", id(c)), collections.Counter()))
            if e:
                ctx.violation("element-root:cable", "%s | %s" % (e, st))
                return
            # ports / pins attached to the cable, in every occurrence of its definition (each exactly once)
            wp, wn = collections.Counter(), collections.Counter()
            for sq in occ["cables"]:
                if sq[-1] is c:
                    base = sq[:-1]
                    for w_ in c.wires:
                        for p_ in w_.pins:
                            if isinstance(p_, sdn.OuterPin):
                                k_ = base + (p_.instance, p_.inner_pin.port)
                                kp = k_ + (p_.inner_pin,)
                            else:
                                k_ = base + (p_.port,)
                                kp = k_ + (p_,)
                            wp[ids(k_)] = 1
                            wn[ids(kp)] = 1
            ctx.count("element_root_queries", 2)
            e = cmp(ctx, "get_hports(cable)", list(_q(rng, ctx, sdn.get_hports, c)), wp) or cmp(ctx, "get_hpins(cable)", list(_q(rng, ctx, sdn.get_hpins, c)), wn)
            if e:
                ctx.violation("element-root:cable-ports", "%s | %s" % (e, st))
                return
            for w in pick(c.wires, 2):
                ctx.count("element_root_queries")
                e = cmp(ctx, "get_hwires(wire)", list(_q(rng, ctx, sdn.get_hwires, w)), by_last.get(("wires", id(w)), collections.Counter()))
                if e:
                    ctx.violation("element-root:wire", "%s | %s" % (e, st))
                    return
        # definition root: occurrences of its instances
        wd = collections.Counter()
        for s in occ["instances"]:
            if s[-1].reference is d and len(s) > 0:
                wd[ids(s)] += 1
        ctx.count("element_root_queries")
        e = cmp(ctx, "get_hinstances(definition)", list(_q(rng, ctx, sdn.get_hinstances, d)), wd)
        if e:
            ctx.violation("element-root:definition", "%s | %s" % (e, st))
            return
    # library root and nested collections of definitions: occurrences of every instance of those definitions
    for root, what in [(l, "library") for l in pick(n.libraries, 2)] + [(pick(defs, 3), "definition list")]:
        members = list(root.definitions) if what == "library" else list(root)
        mids = set(id(x) for x in members)
        wl = collections.Counter()
        for s in occ["instances"]:
            if id(s[-1].reference) in mids:
                wl[ids(s)] += 1
        ctx.count("element_root_queries")
        e = cmp(ctx, "get_hinstances(%s)" % what, list(sdn.get_hinstances(root if what == "library" else members)), wl)
        if e:
            ctx.violation("element-root:%s" % what.replace(" ", "-"), "%s | %s" % (e, st))
            return
    # mixed collections of roots (netlist + definition, netlist + instance): the union, each occurrence still exactly once
    w_all = collections.Counter(want["instances"])
    w_all.pop((id(top),), None)
    for d in pick(defs, 3):
        wu = collections.Counter(w_all)
        for s in occ["instances"]:
            if s[-1].reference is d:
                wu[ids(s)] = 1
        ctx.count("element_root_queries")
        ctx.count("mixed_root_queries")
        e = cmp(ctx, "get_hinstances([netlist, definition], recursive=True)", list(sdn.get_hinstances([n, d], recursive=True)), wu)
        if e:
            ctx.violation("mixed-roots:netlist+definition", "%s | %s" % (e, st))
            return
        for x in pick(d.children, 1):
            wu = collections.Counter(w_all)
            for k_, v_ in by_last.get(("instances", id(x)), {}).items():
                wu[k_] = 1
            ctx.count("mixed_root_queries")
            e = cmp(ctx, "get_hinstances([instance, netlist], recursive=True)", list(sdn.get_hinstances([x, n], recursive=True)), wu)
            if e:
                ctx.violation("mixed-roots:instance+netlist", "%s | %s" % (e, st))
                return
    # the documented lower-level entry point HRef.get_all_hrefs_of_item: the occurrences of an element - for an instance that sits in
    # the design, and for one that does not (a copy that was never placed: it occurs nowhere)
    for d in pick(defs, 4):
        for x in pick(d.children, 2):
            ctx.count("element_root_queries")
            ctx.count("hrefs_of_item_queries")
            got_ = list(HRef.get_all_hrefs_of_item(x))
            e = cmp(ctx, "HRef.get_all_hrefs_of_item(instance)", got_, by_last.get(("instances", id(x)), collections.Counter()))
            if not e:
                # HRef.get_all_hrefs_of_instances takes one instance or any iterable of instances - a list, a set, a one-shot iterator
                sibs_ = [x] + [y for y in d.children if y is not x][:2]
                wantm = collections.Counter()
                for y in sibs_:
                    wantm.update(by_last.get(("instances", id(y)), collections.Counter()))
                form_ = rng.choice(["list", "iter", "generator", "set", "single"])
                arg_ = {"list": lambda: list(sibs_), "iter": lambda: iter(sibs_), "generator": lambda: (y for y in sibs_),
                        "set": lambda: set(sibs_), "single": lambda: x}[form_]()
                ctx.count("hrefs_of_instances_argument_forms")
                e = cmp(ctx, "HRef.get_all_hrefs_of_instances(%s of instances)" % form_, list(HRef.get_all_hrefs_of_instances(arg_)),
                        wantm if form_ != "single" else by_last.get(("instances", id(x)), collections.Counter()))
            if not e and any(not h.is_valid for h in got_):
                e = "HRef.get_all_hrefs_of_item(instance) returned a reference that reports invalid"
            if not e and rng.random() < 0.5:
                c_ = x.clone()
                try:
                    got_ = list(HRef.get_all_hrefs_of_item(c_))
                finally:
                    c_.reference = None       # (the copy leaves the reference set of the cell again)
                ctx.count("hrefs_of_item_queries_for_unplaced_instances")
                if got_:
                    e = "HRef.get_all_hrefs_of_item(<copy of an instance that was never placed>) returned %d reference(s) %r" % (
                        len(got_), [(h.name, h.is_valid) for h in got_[:2]])
            if e:
                ctx.violation("element-root:hrefs-of-item", "%s | %s" % (e, st))
                return
    # ... an instance (or one of its pins) and a definition it is NOT an instance of, the definition standing last: the union -
    #     and asking again for the definition alone (its instances, one of its ports) afterwards gives what it gave before
    for d in pick([d_ for d_ in defs if d_.references], 3):
        others = [x for d_ in defs for x in d_.children if x.reference is not d]
        if not others:
            continue
        x = rng.choice(others)
        wd = collections.Counter()
        for s in occ["instances"]:
            if s[-1].reference is d:
                wd[ids(s)] = 1
        wu = collections.Counter(wd)
        for k_ in by_last.get(("instances", id(x)), {}):
            wu[k_] = 1
        root_x = x
        if rng.random() < 0.4 and len(x.pins):
            root_x = next(iter(x.pins))
        ctx.count("mixed_root_queries")
        ctx.count("instance_then_definition_root_queries")
        refs_before = set(map(id, d.references))
        got = list(sdn.get_hinstances([root_x, d]))
        if root_x is x:
            e = cmp(ctx, "get_hinstances([instance, definition])", got, wu)
            if e:
                ctx.violation("mixed-roots:instance+definition", "%s | %s" % (e, st))
                return
        e = cmp(ctx, "get_hinstances(definition) after a query that listed the definition among other roots",
                list(_q(rng, ctx, sdn.get_hinstances, d)), wd)
        if not e and len(d.ports):
            p = rng.choice(list(d.ports))
            e = cmp(ctx, "get_hports(port) after a query that listed its definition among other roots",
                    list(_q(rng, ctx, sdn.get_hports, p)), by_last.get(("ports", id(p)), collections.Counter()))
        if not e and set(map(id, d.references)) != refs_before:
            e = "the references of definition %s changed by a query" % d.name
        if e:
            ctx.violation("earlier-query-changes-later-answer:definition-root", "%s | %s" % (e, st))
            return
    # HRef roots: the sub-tree below an occurrence
    hinsts = [h for h in held if isinstance(h.item, sdn.Instance)]
    for h in pick(hinsts, 5):
        s = ids(seq(h))
        for rec in (True, False):
            w = collections.Counter({k: v for k, v in want["instances"].items()
                                     if len(k) > len(s) and k[:len(s)] == s and (rec or len(k) == len(s) + 1)})
            ctx.count("element_root_queries")
            e = cmp(ctx, "get_hinstances(href, recursive=%s)" % rec, list(_q(rng, ctx, sdn.get_hinstances, h, recursive=rec)), w)
            if e:
                ctx.violation("href-root:instances", "%s | %s" % (e, st))
                return
    # ... several reference roots at once, one of them lying directly below another, without recursion: the direct children of
    #     each root, whatever the order of the roots in the collection
    by_seq = {ids(seq(h)): h for h in hinsts}
    pairs = []
    for h in hinsts:
        s = ids(seq(h))
        if len(s) >= 2 and s[:-1] in by_seq and any(len(k) == len(s) + 1 and k[:len(s)] == s for k in want["instances"]):
            pairs.append((by_seq[s[:-1]], h))
    for hp, hc in pick(pairs, 4):
        sp, sc = ids(seq(hp)), ids(seq(hc))
        w = collections.Counter({k: 1 for k in want["instances"]
                                 if (len(k) == len(sp) + 1 and k[:len(sp)] == sp) or (len(k) == len(sc) + 1 and k[:len(sc)] == sc)})
        for roots, tag in (([hp, hc], "parent first"), ([hc, hp], "child first")):
            ctx.count("element_root_queries")
            ctx.count("nested_href_root_queries")
            e = cmp(ctx, "get_hinstances([two references, one directly below the other; %s], recursive=False)" % tag,
                    list(_q(rng, ctx, sdn.get_hinstances, roots, recursive=False)), w)
            if e:
                ctx.violation("href-roots-nested:instances", "%s | %s" % (e, st))
                return
    # ... an instance PIN (outer pin) as the root: the occurrences of its inner pin / port below every occurrence of its instance
    for d in pick(defs, 6):
        for x in pick(d.children, 2):
            if x.reference is None:
                continue
            for op in pick(list(x.pins), 2):
                ip = op.inner_pin
                if ip is None or ip.port is None:
                    continue
                wpin, wport = collections.Counter(), collections.Counter()
                for sq in occ["instances"]:
                    if sq[-1] is x:
                        wpin[ids(sq + (ip.port, ip))] = 1
                        wport[ids(sq + (ip.port,))] = 1
                ctx.count("element_root_queries", 2)
                ctx.count("outer_pin_root_queries", 2)
                e = cmp(ctx, "get_hpins(outer pin)", list(_q(rng, ctx, sdn.get_hpins, op)), wpin) or cmp(ctx, "get_hports(outer pin)", list(_q(rng, ctx, sdn.get_hports, op)), wport)
                if e:
                    ctx.violation("element-root:outer-pin", "%s | %s" % (e, st))
                    return
    # D. breaking edits
    sample = held if len(held) <= 150 else rng.sample(held, 150)
    seqs = [seq(h) for h in sample]
    example_names = [h.name for h in sample[:6]]
    names_before = [h.name for h in sample]        # (every held reference has been asked for its name once before the edits)
    edits = 0
    for step in range(rng.randint(5, 20)):
        k = rng.randrange(11)
        d = rng.choice(defs)
        try:
            if k == 0 and len(d.children):
                d.remove_child(rng.choice(list(d.children)))
            elif k == 1 and len(d.ports):
                d.remove_port(rng.choice(list(d.ports)))
            elif k == 2 and len(d.cables):
                d.remove_cable(rng.choice(list(d.cables)))
            elif k == 3 and len(d.children):
                rng.choice(list(d.children)).reference = None
            elif k == 4 and len(d.cables):
                c = rng.choice(list(d.cables))
                if len(c.wires):
                    c.remove_wire(rng.choice(list(c.wires)))
            elif k == 5 and d.library is not None and rng.random() < 0.3:
                d.library.remove_definition(d)
            elif k == 6 and len(d.children):
                x = rng.choice(list(d.children))
                compat = [e for e in defs if x.reference is not None and e is not x.reference and
                          tuple(len(p.pins) for p in e.ports) == tuple(len(p.pins) for p in x.reference.ports) and
                          not contains(e, d)]
                if compat:
                    x.reference = rng.choice(compat)
            elif k == 7 and rng.random() < 0.2:
                if rng.random() < 0.5:
                    n.top_instance = rng.choice(defs)
                else:
                    t_ = sdn.Instance("reroot%d" % step)
                    t_.reference = rng.choice(defs)
                    n.set_top_instance(t_)
                    ctx.count("reroot_edits_by_set_top_instance")
            elif k == 8 and len(d.ports):
                p = rng.choice(list(d.ports))
                if len(p.pins):
                    p.remove_pin(rng.choice(list(p.pins)))
            elif k == 9:
                # renames on the paths: the held references answer with the names of NOW
                x = rng.choice(list(d.children) + list(d.cables) + list(d.ports) or [None])
                if x is None or not x.name:
                    continue
                x.name = "%s_r%d" % (x.name[:20], step)
            elif k == 10:
                bs = [b for b in list(d.cables) + list(d.ports) if len(b.wires if isinstance(b, sdn.Cable) else b.pins) >= 1]
                if not bs:
                    continue
                b = rng.choice(bs)
                b.lower_index = b.lower_index + rng.choice([1, 2, 5])
            else:
                continue
        except Exception as ex:  # noqa: BLE001
            ctx.count("edit_exception:%s" % type(ex).__name__)
            continue
        edits += 1
        try:
            allocc, inst_paths = all_occ(n)
        except (AttributeError, RecursionError):
            ctx.count("post_edit_enumeration_failed")
            break
        for h, s in zip(sample, seqs):
            ctx.count("post_edit_evaluations")
            try:
                v = h.is_valid
            except Exception as ex:  # noqa: BLE001
                ctx.violation("is_valid-raises:%s" % type(ex).__name__, "is_valid raised %r after edit kind %d" % (ex, k))
                return
            vo = valid_oracle(s, allocc)
            if v != vo:
                ctx.violation("is_valid-mismatch", "after edit kind %d a %s reference reports valid=%s, path exists=%s" % (
                    k, type(s[-1]).__name__, v, vo))
                return
            if vo:
                ctx.count("post_edit_name_checks")
                try:
                    nm_now, nm_want = h.name, oracle_name(s)
                except Exception as ex:  # noqa: BLE001
                    ctx.violation("name-raises-after-edit:%s" % type(ex).__name__, "name of a valid %s reference raised %r after edit kind %d" % (
                        type(s[-1]).__name__, ex, k))
                    return
                if nm_now != nm_want:
                    ctx.violation("name-stale-after-edit", "after edit kind %d a valid %s reference is named %r, the path is now %r" % (
                        k, type(s[-1]).__name__, nm_now[:60], nm_want[:60]))
                    return
            try:
                u = h.is_unique
            except Exception as ex:  # noqa: BLE001
                ctx.violation("is_unique-raises:%s" % type(ex).__name__, "is_unique raised %r after edit kind %d" % (ex, k))
                return
            li = [x for x in s if isinstance(x, sdn.Instance)][-1]
            uo = vo and inst_paths[id(li)] == 1
            if u != uo:
                ctx.violation("is_unique-mismatch-after-edit", "after edit kind %d is_unique=%s, oracle %s (valid=%s, paths=%d)" % (
                    k, u, uo, vo, inst_paths[id(li)]))
                return
    # E. held references as a COLLECTION of roots after the edits: the stale ones contribute nothing, every other one is
    #    still answered (wire / cable / pin / port references answer with themselves), whatever their order in the collection
    if edits:
        try:
            allocc, inst_paths = all_occ(n)
        except (AttributeError, RecursionError):
            allocc = None
        if allocc is not None:
            for cls, f, what in ((sdn.Wire, sdn.get_hwires, "hwires"), (sdn.Cable, sdn.get_hcables, "hcables"),
                                 (sdn.InnerPin, sdn.get_hpins, "hpins"), (sdn.Port, sdn.get_hports, "hports")):
                sub = [(h, s_) for h, s_ in zip(sample, seqs) if isinstance(s_[-1], cls)]
                if len(sub) < 2:
                    continue
                rng.shuffle(sub)
                wantc = collections.Counter(ids(s_) for h, s_ in sub if valid_oracle(s_, allocc))
                stale = len(sub) - sum(wantc.values())
                ctx.count("held_collection_queries")
                ctx.count("held_collection_stale_roots", stale)
                try:
                    arg = [h for h, _ in sub]
                    n_arg = len(arg)
                    first = list(f(arg))
                    e = cmp(ctx, "get_%s(%d held references, %d of them stale)" % (what, len(sub), stale), first, wantc)
                    if not e and len(arg) != n_arg:
                        e = "get_%s(list of roots) changed the caller's list (%d -> %d entries)" % (what, n_arg, len(arg))
                    if not e:
                        # the same list object asked again gives the same answer
                        e = cmp(ctx, "get_%s(the same list of roots, second call)" % what, list(f(arg)), wantc)
                except Exception as ex:  # noqa: BLE001
                    e = "get_%s(held references) raised %r" % (what, ex)
                if e:
                    ctx.violation("held-collection-after-edit:%s" % what, "%s | %s" % (e, st))
                    return
    multi = any(v > 1 for v in collections.Counter(id(s[-1].reference) for s in occ["instances"]).values())
    ctx.fingerprint((st, len(held)), multi and len(held) >= 150)
    ctx.count("edits_applied", edits)
    if i < 3:
        ctx.sample({"shape": st, "references_enumerated": len(held), "edits": edits,
                    "example_names": example_names})
