"""C04 - structural Verilog write-then-read returns the same netlist.

Monitor: write->read differential on netlists obtained BY PARSING (quantifier): bundled .v examples and texts from the
independent Verilog writer, each optionally passed through uniquify / flatten / clone before composing, with the
composer options write_blackbox / defparam / definition_list.  canon_verilog = per module: ports (name, direction,
width, base), cables (name, width, base), instances (module, parameters, attributes) and the bit-level map
(cable, bit index) -> set of {port bit | instance.port bit | assign side}; assigns as a multiset per width."""
import os
import re
import sys
import glob
import shutil
import tempfile

from .. import common

common.setup_env()
import spydrnet as sdn  # noqa: E402
from spydrnet.uniquify import uniquify  # noqa: E402
from spydrnet.flatten import flatten  # noqa: E402
from spydrnet.ir.outerpin import OuterPin as BaseOuterPin  # noqa: E402

from .. import vmodel, canon, probes  # noqa: E402

PROP = "C04"
LEVEL = "exploration"
RULE = ("case = one reader-produced netlist (generated text with a random feature subset, or every 6th case a bundled .v file) "
        "x transform in {none, uniquify, uniquify+flatten, clone} x composer options -> compose -> parse -> compare bit-level "
        "canonical forms; distinct = canonical-form hash; non-trivial = the netlist has a part-select/concatenation connection "
        "or an assign or a constant, and >=2 modules")
ASSUMPTIONS = ["pin order inside a wire is not compared (Verilog has no such order)",
               "cells of hdi_primitives: only port names/widths/base compared, direction UNDEFINED == INOUT (an inferred black "
               "box necessarily comes back as a declared `celldefine module)",
               "top instance name and netlist name are not compared (not in the statement)"]
REQUIRED = {"round_trips": 150, "bits_compared": 5000, "aliased_header_ports": 40}
FEATURES = ["shuffle", "consts", "undeclared", "positional", "escaped", "params", "attrs", "assigns", "comments", "grouped"]


def plan(tier):
    if tier == "thorough":
        return {"cases": 16 * 500, "shards": 16, "shard_budget_s": 1800, "watchdog_s": 2700, "case_timeout_s": 300}
    return {"cases": 240, "shards": 4, "shard_budget_s": 240, "watchdog_s": 600}


def is_assign(inst):
    r = inst.reference
    return r is not None and r.library is not None and r.library.name == "SDN_VERILOG_ASSIGNMENT"


def canon_verilog(n, ctx=None):
    out = {}
    for l in n.libraries:
        if l.name == "SDN_VERILOG_ASSIGNMENT":
            continue
        prim_lib = l.name == "hdi_primitives"
        for d in l.definitions:
            if prim_lib:
                out[d.name] = {"primitive": True, "ports": sorted((p.name, len(p.pins), p.lower_index) for p in d.ports)}
                continue
            bits = {}
            asg = {}
            for c in d.cables:
                for wi, w in enumerate(c.wires):
                    ps = set()
                    for p in w.pins:
                        if isinstance(p, BaseOuterPin):
                            ip = p.inner_pin
                            k = list(ip.port.pins).index(ip)
                            if is_assign(p.instance):
                                ps.add(("assign", ip.port.name, len(ip.port.pins)))
                                asg.setdefault(id(p.instance), {}).setdefault(k, {})[ip.port.name] = (c.name, c.lower_index + wi)
                            else:
                                ps.add(("inst", p.instance.name, ip.port.name, ip.port.lower_index + k))
                        else:
                            ps.add(("port", p.port.name, p.port.lower_index + list(p.port.pins).index(p)))
                    bits[(c.name, c.lower_index + wi)] = frozenset(ps)
                    if ctx is not None:
                        ctx.count("bits_compared")
            assigns = sorted((len(b), tuple(sorted((x.get("o"), x.get("i")) for x in b.values()))) for b in asg.values())
            out[d.name] = {
                "primitive": False,
                "ports": [(p.name, p.direction.name, len(p.pins), p.lower_index) for p in d.ports],
                "cables": {c.name: (len(c.wires), c.lower_index) for c in d.cables},
                "bits": bits, "assigns": assigns,
                "insts": {i.name: (i.reference.name, dict(i.get("VERILOG.Parameters", {}) or {}), dict(i.get("VERILOG.InlineConstraints", {}) or {}))
                          for i in d.children if not is_assign(i)},
                "params": dict(d.get("VERILOG.Parameters", {}) or {}),
                "attrs": dict(d.get("VERILOG.InlineConstraints", {}) or {}),
            }
    return out


def diff_canon(a, b, relaxed_prims=False, emptied_ok=False):
    for k in a:
        if emptied_ok and k in b and not a[k]["primitive"] and not a[k].get("cables") and not a[k].get("insts") and not b[k]["primitive"]:
            # (only under the fence of finding flattened-names-written-unescaped) a module that flatten emptied keeps its ports
            # but no wire; the reader gives every declared port its wire again: ports are compared, the wires are not
            if a[k]["ports"] != b[k]["ports"]:
                return "module %s ports: %s" % (k, canon.first_diff(a[k]["ports"], b[k]["ports"]))
            continue
        if k not in b:
            if relaxed_prims and a[k]["primitive"]:
                continue        # a black box that is not written and never instantiated disappears
            return "module %s missing after the round trip" % k
        if relaxed_prims and a[k]["primitive"]:
            # write_blackbox=False (default): black boxes are deliberately not written and come back inferred from
            # their uses: every re-read port must exist in the original and be no wider
            wa = {p[0]: p[1] for p in a[k]["ports"]}
            for p in b[k]["ports"]:
                nm, w = p[0], (p[1] if len(p) == 3 else p[2])
                if nm not in wa or w > wa[nm]:
                    return "black box %s port %s (width %s) not in the original %s" % (k, nm, w, wa)
            continue
        if a[k]["primitive"] != b[k]["primitive"]:
            # an inferred black box legitimately comes back as a declared primitive module and vice versa
            pa = sorted((p[0], p[-2], p[-1]) if len(p) == 4 else p for p in a[k]["ports"])
            pb = sorted((p[0], p[-2], p[-1]) if len(p) == 4 else p for p in b[k]["ports"])
            if pa != pb:
                return "primitive %s ports %s vs %s" % (k, pa, pb)
            continue
        for part in a[k]:
            if a[k][part] != b[k][part]:
                dd = canon.first_diff(a[k][part], b[k][part]) if not isinstance(a[k][part], dict) or part != "bits" else None
                if part == "bits":
                    ks = [x for x in set(a[k][part]) | set(b[k][part]) if a[k][part].get(x) != b[k][part].get(x)]
                    dd = "bit %s: %s vs %s" % (ks[0], sorted(a[k][part].get(ks[0], [])), sorted(b[k][part].get(ks[0], [])))
                return "module %s %s: %s" % (k, part, dd)
    for k in b:
        if k not in a:
            return "module %s appeared after the round trip" % k
    return None


def alias_ports(n, rng):
    """Aliased header ports  module m(.a({a_int[1:0]}), .b({a[1:0]}), y):  the net behind a port is called something else -
    possibly like ANOTHER port of the module.  Made on the parsed netlist by renaming nets (what the reader builds from such a
    header); returns the number of aliased ports."""
    k = 0
    for l in n.libraries:
        for d in l.definitions:
            if not d.children or not d.references:
                continue
            cands = []
            for p in d.ports:
                cs = set(pin.wire.cable for pin in p.pins if pin.wire is not None)
                if len(cs) == 1 and all(pin.wire is not None for pin in p.pins):
                    c = next(iter(cs))
                    if c.name == p.name and len(c.wires) == len(p.pins) and "\\" not in (c.name or "\\"):
                        cands.append((p, c))
            rng.shuffle(cands)
            if cands and rng.random() < 0.7:
                (p, c) = cands[0]
                try:
                    c.name = p.name + "_int"
                    k += 1
                    if len(cands) > 1 and rng.random() < 0.6:
                        cands[1][1].name = p.name       # the net behind the second port now carries the FIRST port's name
                        k += 1
                except ValueError:
                    pass
    return k


def run_case(ctx, i, rng):
    me = sys.modules[__name__]
    d = tempfile.mkdtemp(prefix="c04_")
    try:
        if i % 6 == 5:
            fs = sorted(glob.glob(os.path.join(common.REPO, "example_netlists", "verilog_netlists", "*.v.zip")))
            fs = [f for f in fs if 0 < os.path.getsize(f) <= (6000 if ctx.tier == "quick" else 45000)]
            if common.fenced(me, "composer-asserts-on-concatenated-assign"):
                fs = [f for f in fs if "lc3" not in f]
            src = fs[rng.randrange(len(fs))]
            what = os.path.basename(src)
            n = sdn.parse(src)
            feats = ["bundled"]
        else:
            feats = [x for x in FEATURES if rng.random() < 0.5]
            if "positional" in feats and "shuffle" in feats:
                feats.remove("shuffle")       # C06's open finding: keep the reader's input in its domain
            mods = vmodel.gen_design(rng, feats)
            text = vmodel.write(mods, rng, feats)
            src = os.path.join(d, "src.v")
            with open(src, "w") as fh:
                fh.write(text)
            what = "generated %s" % feats
            try:
                n = sdn.parse(src)
            except Exception:  # noqa: BLE001 - C06's business
                ctx.count("source_rejected_by_reader")
                return
        if i % 3 == 1 and i % 6 != 5:
            ctx.count("aliased_header_ports", alias_ports(n, rng))
        transform = rng.choice(["none", "none", "uniquify", "flatten", "clone"])
        rename_flat = False
        if transform == "flatten" and common.fenced(me, "flattened-names-written-unescaped"):
            # fence: the names flatten mints ('a/b') are given a writable spelling before composing, as a user has to; the
            # rest of what flatten leaves behind (emptied modules, merged nets) is written and read back as it is
            rename_flat = True
            ctx.count("fenced:flattened-names-respelled-before-compose")
        try:
            if transform == "uniquify":
                uniquify(n)
            elif transform == "flatten":
                uniquify(n)
                flatten(n)
                if rename_flat:
                    for l_ in n.libraries:
                        for d_ in l_.definitions:
                            for coll in (list(d_.children), list(d_.cables)):
                                taken = set(x_.name for x_ in coll)
                                for x_ in coll:
                                    if x_.name and "/" in x_.name:
                                        nm_ = x_.name.replace("\\", "").replace(" ", "").replace("/", "__")
                                        nm_ = re.sub(r"[^A-Za-z0-9_]", "_", nm_)
                                        if not re.match(r"[A-Za-z_]", nm_):
                                            nm_ = "f_" + nm_
                                        k_ = 0
                                        while nm_ in taken:
                                            k_ += 1
                                            nm_ = "%s_%d" % (nm_, k_)
                                        taken.add(nm_)
                                        x_.name = nm_
            elif transform == "clone":
                n = n.clone()
        except Exception as ex:  # noqa: BLE001
            ctx.count("transform_failed:%s:%s" % (transform, type(ex).__name__))
            return
        opts = {}
        if rng.random() < 0.5:
            opts["write_blackbox"] = rng.choice([True, False])
        if rng.random() < 0.5:
            opts["defparam"] = rng.choice([True, False])
        a = canon_verilog(n, ctx)
        optlist = [opts]
        if any(v[1] for m in a.values() for v in m.get("insts", {}).values()):
            # instances carry parameters: the same netlist is also written in the other parameter style
            optlist.append(dict(opts, defparam=not opts.get("defparam", False)))
            ctx.count("netlists_written_in_both_parameter_styles")
        for opts in optlist:
            f = os.path.join(d, "out.v")
            try:
                if rng.random() < 0.15:
                    # the writer class itself, with its documented bottom-to-top order (sdn.compose does not pass that option on)
                    from spydrnet.composers.verilog.composer import Composer
                    w_ = Composer(definition_list=opts.get("definition_list"), write_blackbox=opts.get("write_blackbox", True),
                                  defparam=opts.get("defparam", False), reverse=True)
                    w_.run(n, file_out=f)
                    if getattr(w_, "file", None) is not None and not w_.file.closed:
                        w_.file.close()
                    ctx.count("written_bottom_to_top")
                else:
                    sdn.compose(n, f, **opts)
            except Exception as ex:  # noqa: BLE001
                fr = probes.innermost_frame(ex) or ""
                if rename_flat and isinstance(ex, AssertionError) and "multiple cables appear to be connected to a single assignment" in str(ex):
                    ctx.count("fenced:flatten-left-an-assign-across-cables")      # second half of the same open finding
                    return
                ctx.violation("composer-raised:%s:%s" % (type(ex).__name__, fr.split(":")[-1]), "%s at %s | %s transform=%s opts=%s" % (
                    str(ex)[:120], fr, what, transform, opts))
                return
            try:
                n2 = sdn.parse(f)
            except Exception as ex:  # noqa: BLE001
                fr = probes.innermost_frame(ex) or ""
                ctx.violation("written-text-rejected:%s:%s" % (type(ex).__name__, fr.split(":")[-1]), "%s at %s | %s transform=%s opts=%s" % (
                    str(ex)[:120], fr, what, transform, opts), {"written": open(f).read()[:5000]})
                return
            ctx.count("round_trips")
            ctx.count("transform:" + transform)
            b = canon_verilog(n2)
            if opts.get("write_blackbox") is False:
                # black boxes are deliberately not written: they come back as inferred primitives; compare the rest
                pass
            dd = diff_canon(a, b, relaxed_prims=not opts.get("write_blackbox", True), emptied_ok=rename_flat)
            if dd:
                part = "bits" if " bits: " in dd else ("ports" if "ports" in dd else ("assigns" if "assigns" in dd else "other"))
                ctx.violation("roundtrip-differs:%s:%s" % (part, transform), "%s | %s opts=%s" % (dd, what, opts), {"written": open(f).read()[:5000]})
                return
        rich = any((not m["primitive"]) and (m["assigns"] or any(k[0].startswith("\\<const") for k in m["bits"]) or
                                             any(len(v) >= 2 for v in m["bits"].values())) for m in a.values())
        ctx.fingerprint(repr(sorted((k, repr(v)) for k, v in a.items())), rich and sum(1 for m in a.values() if not m["primitive"]) >= 2)
        if i < 2:
            ctx.sample({"source": what, "transform": transform, "options": opts, "written_head": open(f).read()[:600]})
    finally:
        shutil.rmtree(d, ignore_errors=True)


def probe_flatten_names():
    d = tempfile.mkdtemp(prefix="c04p_")
    try:
        f = os.path.join(d, "s.v")
        open(f, "w").write("module top(a, b);\n input a; output b;\n wire w;\n mid m(.x(a), .y(b));\nendmodule\n"
                           "module mid(x, y);\n input x; output y;\n wire t;\n LEAF l(.i(x), .o(t));\n LEAF k(.i(t), .o(y));\nendmodule\n")
        n = sdn.parse(f)
        uniquify(n)
        flatten(n)
        g = os.path.join(d, "o.v")
        try:
            sdn.compose(n, g)
            sdn.parse(g)
        except AssertionError:
            return True
        return False
    finally:
        shutil.rmtree(d, ignore_errors=True)


PROBES = {"flattened-names-written-unescaped": probe_flatten_names}
