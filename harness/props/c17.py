"""C17 - EDIF export gives every object a legal, case-insensitively unique identifier.

Monitor: legality / uniqueness predicate (independent EDIF 2 0 0 identifier grammar) over the identifiers stored
after compose for every scope (libraries, cells, ports, nets, instances), rename bookkeeping, and a reparse that
must succeed and show the original names again.  make_valid is additionally driven directly on sibling lists."""
import os
import re
import sys
import shutil
import tempfile

from .. import common

common.setup_env()
import spydrnet as sdn  # noqa: E402
from spydrnet.composers.edif.edifify_names import EdififyNames  # noqa: E402

from .. import probes  # noqa: E402

PROP = "C17"
LEVEL = "exploration"
RULE = ("case = one netlist whose libraries, cells, ports, nets and instances carry sibling names drawn from an adversarial "
        "generator (letters in both cases, digits, _ - [ ] / \\\\ space $ & . : ( ) etc., lengths 1-300, case-only collisions, "
        "sanitised-to-same collisions, truncation collisions, pre-existing x_sdn_N_ forms) -> compose -> predicate -> reparse; "
        "plus direct make_valid calls on sibling lists; distinct = name-set hash; non-trivial = name set contains a case-only "
        "or sanitised-to-same collision, or a name longer than 255")
ASSUMPTIONS = ["identifier grammar: [A-Za-z][A-Za-z0-9_]{0,254} | &[A-Za-z0-9_]{1,255}",
               "names are printable ASCII without double quotes/newlines; net names do not end in [digits]",
               "every generated port has a defined direction"]
REQUIRED = {"identifiers_checked": 5000, "scopes_checked": 800, "reparsed": 100, "make_valid_direct": 1000}
LEGAL = re.compile(r"^(?:[A-Za-z][A-Za-z0-9_]{0,254}|&[A-Za-z0-9_]{1,255})$")
CHARS = "abAB_-[]/\\ $&.:()019xyXY<>*+,;=?@^`{|}~#%!'"


def plan(tier):
    if tier == "thorough":
        return {"cases": 16 * 600, "shards": 16, "shard_budget_s": 1800, "watchdog_s": 2700}
    return {"cases": 640, "shards": 4, "shard_budget_s": 240, "watchdog_s": 600}


def gen_names(r, k, net=False, family=False):
    """k distinct names (exact string distinct - the DEFAULT policy demands only that) with planted collisions."""
    out = []
    seen = set()
    kinds = []

    def add(nm, kind):
        if not nm or nm in seen or '"' in nm or "\n" in nm:
            return
        if net and re.search(r"\[\d+\]$", nm) and not (nm.startswith("\\") and nm.count(" ") >= 2):
            return      # (a scalar net named b[3] reads as a bus bit - except the escaped form with blanks inside, which is kept literally)
        seen.add(nm)
        out.append(nm)
        kinds.append(kind)
    if family:
        # a dozen or more siblings whose names all sanitise to ONE identifier: the conflict counter passes _sdn_9_
        b = "".join(r.choice("abcXYZ") for _ in range(3))
        for ch in r.sample("-/$ .+=!#@~%^&|:;,<>?*", r.randint(12, 16)):
            add(b[0] + ch + b[1:], "family")
    tries = 0
    while len(out) < k and tries < 200:
        tries += 1
        c = r.random()
        if c < 0.35 or not out:
            n = r.choice([1, 2, 3, 5, 8])
            add("".join(r.choice(CHARS) for _ in range(n)), "random")
        elif c < 0.5:
            add(r.choice(out).swapcase(), "case-only")
        elif c < 0.65:
            base = r.choice(out)
            j = r.randrange(len(base))
            add(base[:j] + r.choice("-/[]$ .") + base[j + 1:], "sanitised-same")
        elif c < 0.75:
            n = r.choice([254, 255, 256, 257, 300])
            add(r.choice("aA$_9") + "".join(r.choice("abAB_0") for _ in range(n - 1)), "long")
        elif c < 0.85:
            longs = [x for x in out if len(x) > 250]
            if longs:
                b = r.choice(longs)
                add(b[:250] + "".join(r.choice("abAB") for _ in range(r.choice([6, 10, 50]))), "truncation")
        elif c < 0.90:
            add(r.choice(out) + "_sdn_%d_" % r.choice([1, 2, 9, 10, 99]), "sdn-suffix")
        elif c < 0.95:
            # counter about to gain a digit on an identifier that is already at the length limit, plus its case twin
            n = r.choice([247, 248, 249])
            base = r.choice("aAbB") + "".join(r.choice("abAB_0") for _ in range(n - 1)) + "_sdn_%d_" % r.choice([9, 99])
            add(base, "long")
            add(base.swapcase(), "case-only")
        else:
            add(r.choice(["&", "&a", "_", "9", "-", "a-b", "A_b", "a_B", "x[", "x[0", "[3]x", "\\esc ", "a b",
                          "sig%65%x", "%7%", "q$%48%9", "%1 2 3%", "50%", "a\\", "b\\\\\\", "%%",
                          "\\a b c[3]", "\\u1/q  reg[7]", "\\x y z"]), "special")
    if r.random() < 0.12:
        # a percent sign followed by a long run of digits (an EDIF string may hold %<numbers>% escapes; this is none - no closing
        # percent sign - and has to be read as the plain text it is, in time proportional to its length)
        add(r.choice(["%", "w%", "50%", "%-"]) + r.choice("0123456789") * 28, "percent-digits")
    return out, kinds


def check_scope(ctx, scope, elems, flag_rule=True):
    ctx.count("scopes_checked")
    ids_ = []
    for e in elems:
        ctx.count("identifiers_checked")
        if "EDIF.identifier" not in e:
            return "identifier-missing", "%s %r has no EDIF.identifier after compose" % (scope, e.name)
        v = e["EDIF.identifier"]
        if not isinstance(v, str) or not LEGAL.match(v):
            why = "illegal"
            if isinstance(v, str):
                if len(v) > (256 if v.startswith("&") else 255):
                    why = "too-long"
                elif "-" in v:
                    why = "dash"
            return "illegal-identifier:%s" % why, "%s named %r (len %d) got identifier %r (len %d)" % (
                scope, e.name[:40], len(e.name), v[:60], len(v))
        ids_.append(v)
    low = [v.lower() for v in ids_]
    if len(set(low)) != len(low):
        d = next(v for v in low if low.count(v) > 1)
        pair = [(e.name[:30], e["EDIF.identifier"][:30]) for e in elems if e["EDIF.identifier"].lower() == d]
        return "duplicate-identifier", "%s siblings share identifier ignoring case: %s" % (scope, pair)
    names_low = {}
    for e in elems:
        names_low.setdefault(e.name.lower(), []).append(e)
    for e in elems:
        # identifier must differ (ignoring case) from the NAMES of the other siblings too
        for o in names_low.get(e["EDIF.identifier"].lower(), []):
            if o is not e:
                return "identifier-equals-sibling-name", "%s %r got identifier %r which is sibling %r's name ignoring case" % (
                    scope, e.name[:30], e["EDIF.identifier"][:30], o.name[:30])
        if flag_rule and e["EDIF.identifier"] != e.name and not e.get("EDIF.rename", False):
            return "rename-not-recorded", "%s %r got identifier %r without EDIF.rename" % (scope, e.name[:30], e["EDIF.identifier"][:30])
    return None


def run_case(ctx, i, rng):
    r = rng
    if i % 4 == 3:
        # make_valid directly on sibling lists
        names, kinds = gen_names(r, r.randint(2, 12))
        objs = [sdn.Instance(nm) for nm in names]
        ed = EdififyNames()
        for o in objs:
            ctx.count("make_valid_direct")
            try:
                v = ed.make_valid(o, objs)
            except Exception as ex:  # noqa: BLE001
                ctx.violation("make_valid-raised:%s" % type(ex).__name__, "%r on %r" % (ex, o.name[:50]))
                return
            o["EDIF.identifier"] = v
            if v != o.name:
                o["EDIF.rename"] = True
        res = check_scope(ctx, "make_valid list", objs)
        if res:
            ctx.violation("make_valid:" + res[0], res[1])
            return
        ctx.fingerprint(("mv", tuple(names)), any(k in ("case-only", "sanitised-same", "long", "truncation") for k in kinds))
        return
    me = sys.modules[__name__]
    n = sdn.Netlist("top_netlist")
    scopes = []
    lib_names, k1 = gen_names(r, r.randint(1, 3))
    kinds_all = list(k1)
    libs = [n.create_library(nm) for nm in lib_names]
    scopes.append(("library", libs))
    leaf = None
    for l in libs:
        def_names, k2 = gen_names(r, r.randint(1, 4))
        kinds_all += k2
        defs = [l.create_definition(nm) for nm in def_names]
        scopes.append(("cell", defs))
        for d in defs:
            pn, k3 = gen_names(r, r.randint(1, 4))
            kinds_all += k3
            ports = [d.create_port(nm, pins=r.choice([1, 1, 3]), direction=r.choice([sdn.IN, sdn.OUT, sdn.INOUT])) for nm in pn]
            scopes.append(("port", ports))
            if leaf is None:
                leaf = d
                continue
            cn, k4 = gen_names(r, r.randint(1, 4), net=True, family=(i % 5 == 4 and r.random() < 0.4))
            if "family" in k4:
                ctx.count("scopes_with_a_dozen_colliding_names")
            kinds_all += k4
            cables = []
            for nm in cn:
                w = r.choice([1, 1, 2]) if len(nm) <= 240 or r.random() < 0.5 else r.choice([2, 11, 101])   # (bit suffixes of 3 to 5 characters)
                if w > 1 and len(nm) > 240 and common.fenced(me, "long-bus-net-bit-identifier-too-long"):
                    ctx.count("fenced:long-bus-name")
                    w = 1
                if w > 1 and nm[0] == "\\" and common.fenced(me, "bus-net-backslash-name-not-reassembled"):
                    ctx.count("fenced:bus-name-starting-with-backslash")
                    w = 1
                cables.append(d.create_cable(nm, wires=w))
                if w > 1 and len(nm) > 240 and r.random() < 0.6:
                    cables[-1].lower_index = r.choice([8, 9, 98, 99, 998])     # (the top index has more digits than the width)
            if i % 7 == 5 and r.random() < 0.6:
                # bus names that contain the query wildcards, one a proper prefix of the other, the longer one first
                ch_ = r.choice("*?")
                b_ = "wq%d" % r.randrange(100)
                try:
                    cables.append(d.create_cable(b_ + ch_ + "hi", wires=2))
                    cables.append(d.create_cable(b_ + ch_, wires=2))
                    ctx.count("bus_names_with_wildcard_characters", 2)
                except ValueError:
                    pass
            scopes.append(("net", cables))
            inn, k5 = gen_names(r, r.randint(1, 4), family=(i % 5 == 2 and r.random() < 0.5))
            if "family" in k5:
                ctx.count("scopes_with_a_dozen_colliding_names")
            kinds_all += k5
            insts = [d.create_child(nm, reference=leaf) for nm in inn]
            scopes.append(("instance", insts))
            wires = [w for c in cables for w in c.wires]
            pins = [p for po in ports for p in po.pins] + [op for x in insts for op in x.pins]
            for p in pins:
                if r.random() < 0.6:
                    r.choice(wires).connect_pin(p)
    tops = [d for l in libs for d in l.definitions if d is not leaf]
    if not tops:
        d = libs[-1].create_definition("only_top")
        d.create_port("p", pins=1, direction=sdn.IN)
        tops = [d]
    n.top_instance = tops[-1]
    n.top_instance.name = gen_names(r, 1)[0][0]
    originals = {id(e): e.name for _, es in scopes for e in es}
    d = tempfile.mkdtemp(prefix="c17_")
    try:
        f = os.path.join(d, "x.edf")
        try:
            sdn.compose(n, f)
        except Exception as ex:  # noqa: BLE001
            ctx.violation("compose-raised:%s" % type(ex).__name__, "%r at %s" % (ex, probes.innermost_frame(ex)))
            return
        for scope, es in scopes:
            for e in es:
                if e.name != originals[id(e)]:
                    ctx.violation("original-name-changed", "%s name %r became %r" % (scope, originals[id(e)][:30], e.name[:30]))
                    return
            # siblings as they are now (library / cell order may have been permuted by the writer)
            res = check_scope(ctx, scope, es)
            if res:
                ctx.violation(res[0] + ":" + scope, res[1])
                return
        import time as _time
        cpu0 = _time.process_time()
        try:
            n2 = sdn.parse(f)
        except Exception as ex:  # noqa: BLE001
            fr = probes.innermost_frame(ex) or ""
            ctx.violation("written-file-rejected:%s:%s" % (type(ex).__name__, fr.split(":")[-1]), "%r at %s" % (str(ex)[:200], fr))
            return
        cpu = _time.process_time() - cpu0
        ctx.count("reparsed")
        # "readable again" includes: in time that grows with the size of the file, not exponentially with the length of one name
        # (CPU time of this process, not wall-clock; the bound is ~10x what the reader needs per byte plus 3 s)
        size_ = os.path.getsize(f)
        ctx.count("reader_cpu_bounds_checked")
        if cpu > 3.0 + 30e-6 * size_:
            worst = max((x.name for sc_, es_ in scopes for x in es_), key=lambda nm_: (nm_.count("%"), len(nm_)))
            ctx.violation("written-file-read-in-superlinear-time", "re-reading the %d-byte file the writer produced took %.1f s of CPU (bound %.1f s); "
                          "names include %r" % (size_, cpu, 3.0 + 30e-6 * size_, worst[:60]))
            return
        # re-read names per scope
        want = {l.name: {dd.name: ([p.name for p in dd.ports], sorted(c.name for c in dd.cables), sorted(x.name for x in dd.children))
                         for dd in l.definitions} for l in n.libraries}
        got = {l.name: {dd.name: ([p.name for p in dd.ports], sorted(c.name for c in dd.cables), sorted(x.name for x in dd.children))
                        for dd in l.definitions} for l in n2.libraries}
        if want != got:
            from ..canon import first_diff
            ctx.violation("reread-names-differ", first_diff(want, got) or "names differ")
            return
        if i % 3 == 0:
            # the same netlist, already exported once (its elements now carry identifiers), gets some new names and is
            # exported again: identifiers must again be legal and unique, and the file must show the names of NOW
            renamed = 0
            for scope, es in scopes:
                if es and r.random() < 0.6:
                    e = r.choice(es)
                    new = r.choice(["renamed_%d" % renamed, "Renamed %d/x" % renamed, "r%d[new]" % renamed if scope != "net" else "rn%d.new" % renamed])
                    try:
                        e.name = new
                        renamed += 1
                    except ValueError:
                        pass
            ctx.count("elements_renamed_before_second_export", renamed)
            f2 = os.path.join(d, "y.edf")
            try:
                sdn.compose(n, f2)
            except Exception as ex:  # noqa: BLE001
                ctx.violation("second-export-raised:%s" % type(ex).__name__, "%r at %s" % (ex, probes.innermost_frame(ex)))
                return
            for scope, es in scopes:
                # (the EDIF.rename key is only written when an identifier is first assigned: on a later export the record
                #  that counts is the rename construct in the file, judged by re-reading it below)
                res = check_scope(ctx, scope, es, flag_rule=False)
                if res:
                    ctx.violation("second-export:" + res[0] + ":" + scope, res[1])
                    return
            try:
                n3 = sdn.parse(f2)
            except Exception as ex:  # noqa: BLE001
                fr = probes.innermost_frame(ex) or ""
                ctx.violation("second-export:written-file-rejected:%s:%s" % (type(ex).__name__, fr.split(":")[-1]), "%r at %s" % (str(ex)[:200], fr))
                return
            ctx.count("second_exports_reparsed")

            def names_of(nl):
                return {l.name: {dd.name: ([p.name for p in dd.ports], sorted(c.name for c in dd.cables), sorted(x.name for x in dd.children))
                                 for dd in l.definitions} for l in nl.libraries}
            if names_of(n) != names_of(n3):
                from ..canon import first_diff
                ctx.violation("second-export:reread-names-differ", first_diff(names_of(n), names_of(n3)) or "names differ")
                return
        if i % 3 == 1:
            # the netlist READ BACK from the file (EDIF naming policy, every element carries the identifier of the file):
            # elements are replaced by fresh ones of the same name (remove, then create) and the netlist is exported again
            replaced = 0
            for l_ in n2.libraries:
                for d_ in l_.definitions:
                    for x_ in list(d_.children):
                        if r.random() < 0.4:
                            for op in list(x_.pins):
                                if op.wire is not None:
                                    op.wire.disconnect_pin(op)
                            nm_, ref_ = x_.name, x_.reference
                            d_.remove_child(x_)
                            x_.reference = None
                            d_.create_child(nm_, reference=ref_)
                            replaced += 1
                    for c_ in list(d_.cables):
                        if r.random() < 0.4:
                            for w_ in c_.wires:
                                for p_ in list(w_.pins):
                                    w_.disconnect_pin(p_)
                            nm_, nw_ = c_.name, len(c_.wires)
                            d_.remove_cable(c_)
                            d_.create_cable(nm_, wires=nw_)
                            replaced += 1
            ctx.count("elements_replaced_in_reread_netlist", replaced)
            f4 = os.path.join(d, "z.edf")

            def names_of2(nl):
                return {l.name: {dd.name: ([p.name for p in dd.ports], sorted(c.name for c in dd.cables), sorted(x.name for x in dd.children))
                                 for dd in l.definitions} for l in nl.libraries}
            before = names_of2(n2)
            try:
                sdn.compose(n2, f4)
            except Exception as ex:  # noqa: BLE001
                ctx.violation("export-after-replace-raised:%s" % type(ex).__name__, "%r at %s (%d elements replaced by same-named fresh ones)" % (
                    ex, probes.innermost_frame(ex), replaced))
                return
            for l_ in n2.libraries:
                for d_ in l_.definitions:
                    for scope, es in (("port", list(d_.ports)), ("net", list(d_.cables)), ("instance", list(d_.children))):
                        res = check_scope(ctx, scope, es, flag_rule=False)
                        if res:
                            ctx.violation("export-after-replace:" + res[0] + ":" + scope, res[1])
                            return
            try:
                n4 = sdn.parse(f4)
            except Exception as ex:  # noqa: BLE001
                fr = probes.innermost_frame(ex) or ""
                ctx.violation("export-after-replace:written-file-rejected:%s:%s" % (type(ex).__name__, fr.split(":")[-1]), "%r at %s" % (str(ex)[:200], fr))
                return
            ctx.count("exports_after_replace_reparsed")
            if before != names_of2(n4):
                from ..canon import first_diff
                ctx.violation("export-after-replace:reread-names-differ", first_diff(before, names_of2(n4)) or "names differ")
                return
    finally:
        shutil.rmtree(d, ignore_errors=True)
    ctx.fingerprint(tuple(sorted(originals.values())), any(k in ("case-only", "sanitised-same", "long", "truncation") for k in kinds_all))
    if i < 3:
        ctx.sample({"names": [(s, [e.name[:40] for e in es][:5], [e["EDIF.identifier"][:40] for e in es][:5]) for s, es in scopes[:6]]})


def _rt(build):
    d = tempfile.mkdtemp(prefix="c17p_")
    try:
        n = sdn.Netlist("n")
        lib = n.create_library("work")
        top = lib.create_definition("top")
        top.create_port("p", pins=1, direction=sdn.IN)
        build(top)
        n.top_instance = top
        n.top_instance.name = "t"
        f = os.path.join(d, "p.edf")
        sdn.compose(n, f)
        try:
            return sdn.parse(f)
        except Exception as ex:  # noqa: BLE001
            return ex
    finally:
        shutil.rmtree(d, ignore_errors=True)


def probe_long_bus():
    r = _rt(lambda top: top.create_cable("a" * 255, wires=2))
    return isinstance(r, RuntimeError) and "Expecting EDIF identifier" in str(r)


def probe_backslash_bus():
    r = _rt(lambda top: top.create_cable("\\x", wires=2))
    if isinstance(r, Exception):
        return False
    names = sorted(c.name for c in r.libraries[0].definitions[0].cables)
    return names == ["\\x[0]", "\\x[1]"]


PROBES = {"long-bus-net-bit-identifier-too-long": probe_long_bus,
          "bus-net-backslash-name-not-reassembled": probe_backslash_bus}
