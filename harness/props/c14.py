"""C14 - a refused edit changes nothing.

Monitor: identity-level snapshot of the whole universe (containment and order, connections, reference sets,
names/data, bundle attributes, naming policy, the namespace manager's name tables, and - on a third of the
histories - the answers of public exact-name lookups over the name alphabet) taken at entry of every
outermost mutator call and compared at exit whenever the call was refused."""
from .. import common

common.setup_env()
import sys
import spydrnet as sdn  # noqa: E402

from .. import probes, gen_ops, snapshot  # noqa: E402

PROP = "C14"
LEVEL = "fault_enumeration"
RULE = ("case = one 'hostile' history (>=60% of argument choices drawn from the invalid classes of DESIGN.md appendix A: "
        "foreign/owned/non-member elements, connected-elsewhere and stale/mismatched proxy pins, shape-mismatching "
        "references, non-permutations, colliding and illegal names) of 60-160 calls under one naming policy; every "
        "refused call is one evaluated fault; distinct = (op,strategy,outcome) sequence hash; non-trivial = >=15 "
        "refused calls over >=6 different mutators")
ASSUMPTIONS = ["refusal = exception whose innermost spydrnet frame is an explicit assert/raise (or a missing-key KeyError "
               "of the data dictionary); a call given an invalid argument that ends with any other exception is judged the same way "
               "(key failed-call-...); exceptions on valid arguments are counted and listed, not judged",
               "objects created by the refused call itself are not part of the 'before' state"]
REQUIRED = {"refusals_checked": 1500, "mutators_refused": 25, "lookup_snapshots": 200}
BADPOS = "non-integer-position-fails-late"
PROBES = {BADPOS: lambda: gen_ops.probe_bad_position("name")}
FENCES = ()
ALPHABET = gen_ops.NAMES + gen_ops.IDS


def plan(tier):
    if tier == "thorough":
        return {"cases": 16 * 700, "shards": 16, "shard_budget_s": 1500, "watchdog_s": 2400}
    return {"cases": 320, "shards": 4, "shard_budget_s": 200, "watchdog_s": 600}


class C14Monitor:
    def __init__(self, ctx, with_lookups):
        self.ctx = ctx
        self.with_lookups = with_lookups
        self.before = None
        self.refused = 0
        self.mutators = set()

    def pre(self, eng, op):
        self.before = snapshot.snap(eng.u, tables=True, lookups=ALPHABET if self.with_lookups else None)
        if self.with_lookups:
            self.ctx.count("lookup_snapshots")

    def post(self, eng, op, outcome, exc, result):
        ctx = self.ctx
        ctx.count("calls_" + outcome)
        if outcome == "ok":
            return False
        after = snapshot.snap(eng.u, tables=True, lookups=ALPHABET if self.with_lookups else None)
        d = snapshot.diff(self.before, after)
        if outcome == "crash":
            ctx.count("crash:%s:%s:%s" % (op.label, type(exc).__name__, probes.innermost_frame(exc)))
            if d is not None:
                ctx.count("crash_changed_state:%s" % op.label)
                if op.strat != "valid":
                    # the call was given an argument that violates a precondition and ended with an exception that is
                    # not one of the explicit checks (e.g. list.remove's ValueError): to the caller it is a refusal too
                    k, was, now = d
                    ctx.violation("failed-call-changed-state:%s:%s" % (op.label, k[0]),
                                  "%s (%s) ended with %s: %s at %s (no explicit check) and fact %s changed from %r to %r; log=%s" % (
                                      op.desc, op.strat, type(exc).__name__, str(exc)[:80], probes.innermost_frame(exc), k[0], was, now, eng.log[-6:]),
                                  {"fact": str(k)})
                    return True
            return False
        ctx.count("refusals_checked")
        ctx.count("refused:%s:%s" % (op.label, op.strat))
        if op.label not in self.mutators:
            self.mutators.add(op.label)
        self.refused += 1
        if d is not None:
            k, was, now = d
            ctx.violation("refused-call-changed-state:%s:%s" % (op.label, k[0]),
                          "%s (%s) refused with %s: %s but fact %s changed from %r to %r; log=%s" % (
                              op.desc, op.strat, type(exc).__name__, str(exc)[:80], k[0], was, now, eng.log[-6:]),
                          {"fact": str(k)})
            return True
        return False


def long_list_reorders(ctx, rng):
    """Refused reorder assignments on LONG member lists (5-9 members), the offending value at every position in turn: a reorder that
    is validated or applied element by element goes wrong half-way only when there is a half-way."""
    n = sdn.Netlist("n")
    libs = [n.create_library("l%d" % k) for k in range(rng.randint(5, 9))]
    lib = libs[0]
    defs = [lib.create_definition("d%d" % k) for k in range(rng.randint(5, 9))]
    d = defs[0]
    leaf = defs[1]
    ports = [d.create_port("p%d" % k, pins=1) for k in range(rng.randint(5, 9))]
    wide = d.create_port("wide", pins=rng.randint(5, 9))
    cables = [d.create_cable("c%d" % k, wires=1) for k in range(rng.randint(5, 9))]
    bus = d.create_cable("bus", wires=rng.randint(5, 9))
    kids = [d.create_child("u%d" % k, reference=leaf) for k in range(rng.randint(5, 9))]
    net = cables[0].wires[0]
    lp = leaf.create_port("a", pins=1)
    for k in kids:
        net.connect_pin(k.pins[lp.pins[0]])
    other = sdn.Netlist("o").create_library("ol")
    odef = other.create_definition("od")
    foreign = {"libraries": other, "definitions": odef, "ports": odef.create_port("fp", pins=1), "pins": odef.create_port("fq", pins=2).pins[0],
               "cables": odef.create_cable("fc", wires=1), "wires": odef.create_cable("fd", wires=2).wires[0],
               "children": odef.create_child("fu", reference=leaf)}
    fpin = odef.create_child("fv", reference=leaf).pins[lp.pins[0]]
    targets = [(n, "libraries", foreign["libraries"]), (lib, "definitions", foreign["definitions"]), (d, "ports", foreign["ports"]),
               (wide, "pins", foreign["pins"]), (d, "cables", foreign["cables"]), (bus, "wires", foreign["wires"]),
               (d, "children", foreign["children"]), (net, "pins", fpin)]
    for obj, attr, alien in targets:
        members = list(getattr(obj, attr))
        for trial in range(4):
            perm = list(members)
            rng.shuffle(perm)
            j = rng.randrange(len(perm))
            kind = rng.choice(["replaced", "replaced", "repeated", "extra"])
            if kind == "replaced":
                bad = perm[:j] + [alien] + perm[j + 1:]
            elif kind == "repeated":
                bad = perm[:j] + [perm[(j + 1) % len(perm)]] + perm[j + 1:]
            else:
                bad = perm[:j] + [alien] + perm[j:]
            before = [id(x) for x in getattr(obj, attr)]
            ctx.count("long_list_reorders_tried")
            try:
                setattr(obj, attr, bad)
            except Exception as ex:  # noqa: BLE001
                after = [id(x) for x in getattr(obj, attr)]
                if after != before:
                    ctx.violation("refused-call-changed-state:%s.%s=:order" % (type(obj).__name__, attr),
                                  "a %s assignment (%s value at position %d of %d) was refused with %s and left the list changed (%d -> %d members, "
                                  "same order: %s)" % (attr, kind, j, len(bad), type(ex).__name__, len(before), len(after), sorted(after) == sorted(before)))
                    return
                continue
            ctx.violation("non-permutation-accepted:%s.%s=" % (type(obj).__name__, attr), "a %s assignment with a %s value was accepted" % (attr, kind))
            return


def run_case(ctx, i, rng):
    if i % 8 == 3:
        long_list_reorders(ctx, rng)
    if i % 10 == 9:
        # refusals across naming policies: an orphan subtree built under one policy is offered to a parent under the other one
        from . import c10
        try:
            for _ in range(10):
                c10.cross_policy_case(ctx, i, rng, judge="C14")
                c10.to_default_case(ctx, i, rng, judge="C14")
            ctx.fingerprint(("cross-policy-refusals", i), True)
        finally:
            sdn.namespace_manager.default = "DEFAULT"
        return
    policy = "EDIF" if i % 2 else "DEFAULT"
    sdn.namespace_manager.default = policy
    try:
        eng = gen_ops.Engine(rng, "hostile", policy, fences=tuple(FENCES) + (("bad_position",) if common.fenced(sys.modules[__name__], BADPOS) else ()))
        m = C14Monitor(ctx, with_lookups=(i % 3 == 0))
        gen_ops.run_history(eng, rng.randint(40, 100) if m.with_lookups else rng.randint(60, 160), [m])
        ctx.fingerprint([(e[1], e[3]) for e in eng.log], m.refused >= 15 and len(m.mutators) >= 6)
        for lab in m.mutators:
            ctx.count("mut:" + lab)
        if i < 2:
            ctx.sample({"policy": policy, "history_head": eng.log[:30]})
    finally:
        sdn.namespace_manager.default = "DEFAULT"


def extra_coverage(c):
    muts = sorted(k[4:] for k in c if k.startswith("mut:"))
    return {"mutators_with_refusals": muts}


def teardown(ctx):
    ctx.counters["mutators_refused"] = len([k for k in ctx.counters if k.startswith("mut:")])
