"""C07 - clones are faithful, self-contained and independent of the original.

Monitors around clone():
 (a) identity closure: nothing reachable from a netlist clone is reachable from the source, and no pointer leaves it;
 (b) canon_full(clone) == canon_full(source) (names, data, order, port shapes, connections; positional);
 (c) well-formedness / self-containedness of the clone (netlist), C01/C02 invariants over source+clone (all roots);
 (d) same answers to name and hierarchical queries on clone and source;
 (e) snapshot of the source universe unchanged across clone() except the documented reference-set additions;
 (f) independence: random edits / uniquify / flatten on one side never change the other side's snapshot, and
     the transforms behave on the clone as on the original (same elaborated design).
Sub-netlist roots (library, definition, instance, port, cable, wire, pins) are checked against the bullet lists
of their clone() documentation."""
import sys
import collections

from .. import common

common.setup_env()
import spydrnet as sdn  # noqa: E402
from spydrnet.uniquify import uniquify  # noqa: E402
from spydrnet.flatten import flatten  # noqa: E402
from spydrnet.clone import clone as clone_function  # noqa: E402

from .. import gen_ir, gen_ops, wf, snapshot, canon, probes  # noqa: E402
from ..elab import Elab  # noqa: E402
from ..universe import Universe, KINDS  # noqa: E402

PROP = "C07"
LEVEL = "exploration"
RULE = ("case = one generated netlist (any hierarchy, cross-library references, top instance standalone or also a child, "
        "named or unnamed elements, nested mutable user data on every element kind; every other case with instances outside "
        "the netlist left in its reference sets by earlier removals) with the netlist and a sample (thorough: all) of its libraries, "
        "definitions, instances, ports, cables, wires, inner and outer pins as clone roots, followed by edits and "
        "uniquify/flatten on one side; distinct = shape hash; non-trivial = >=2 libraries with a cross-library reference "
        "or a shared definition, and >=15 clone roots checked")
ASSUMPTIONS = ["clone roots are elements of well-formed netlists (every child has a reference)",
               "documented side effects: Definition.clone / Instance.clone / Library.clone add the cloned instances to the "
               "reference sets of definitions that were not cloned; Netlist.clone changes nothing in the source"]
REQUIRED = {"netlist_clones": 50, "same_edit_comparisons": 30, "netlists_with_straggler_instances": 20, "elements_with_nested_data": 500, "clone_roots": 1500, "independence_edit_steps": 1000, "queries_compared": 1000}


def probe_clone_namespace():
    """S2: a cloned definition/netlist is not indexed by the namespace manager: exact-name lookups find nothing."""
    n = sdn.Netlist("n")
    lib = n.create_library("l")
    d = lib.create_definition("d")
    d.create_cable("c0", wires=1)
    c = d.clone()
    nc = n.clone()
    return len(list(sdn.get_cables(d, "c0"))) == 1 and (len(list(sdn.get_cables(c, "c0"))) == 0 or
                                                        len(list(sdn.get_libraries(nc, "l"))) == 0)


PROBES = {"clone-not-registered-in-namespace": probe_clone_namespace}


def plan(tier):
    if tier == "thorough":
        return {"cases": 16 * 100, "shards": 16, "shard_budget_s": 1500, "watchdog_s": 2400}
    return {"cases": 100, "shards": 4, "shard_budget_s": 240, "watchdog_s": 600}


def idset(u):
    s = set()
    for k in KINDS:
        for x in getattr(u, k):
            s.add(id(x))
    return s


def mutable_ids(elements):
    """ids of every mutable container reachable from the data dictionaries of the given elements."""
    out = set()

    def walk(v):
        if isinstance(v, (list, dict, set, bytearray)):
            if id(v) in out:
                return
            out.add(id(v))
            for x in (v.values() if isinstance(v, dict) else v):
                walk(x)
        elif isinstance(v, tuple):
            for x in v:
                walk(x)
    for e in elements:
        for k in e:
            walk(e[k])
    return out


def fce(u):
    return u.netlists + u.libs + u.defs + u.ports + u.cables + u.insts


def refset_delta(s0, s1):
    """Facts that changed between two snapshots, split into reference-set growth and everything else."""
    grown, other = [], []
    for k, v in s0.items():
        if k not in s1:
            if k[0] == "nametable" and not v:
                continue
            other.append(k)
        elif s1[k] != v:
            if k[0] == "definition.references" and set(v) <= set(s1[k]):
                grown.append((k, set(s1[k]) - set(v)))
            else:
                other.append(k)
    return grown, other


def pos_pin(ip):
    p = ip.port
    return (list(p.definition.ports).index(p), list(p.pins).index(ip))


def elab_desc(n):
    e = Elab(n, max_occ=5000)
    if e.truncated:
        return None
    tree = {e.index_path(p): p[-1].name for p in e.occ}
    leaves = {e.index_path(p): (p[-1].reference.name, len(p[-1].reference.ports)) for p in e.leaf_occ}
    return tree, leaves, e.partition(e.index_path, pos_pin)


def hquery_counts(n):
    out = {}
    for nm, f in (("hinst", sdn.get_hinstances), ("hports", sdn.get_hports), ("hpins", sdn.get_hpins),
                  ("hcables", sdn.get_hcables), ("hwires", sdn.get_hwires)):
        out[nm] = sorted(h.name for h in f(n, recursive=True))
    return out


def name_queries(n, exact=True):
    """Counts returned by name queries for every named element; exact names (fast lookup path) or, with
    exact=False, the same names with the last character replaced by '?' (wildcard scan path)."""
    pat = (lambda s: s) if exact else (lambda s: s[:-1] + "?")
    out = []
    for l in n.libraries:
        if l.name:
            out.append(("lib", l.name, len(list(sdn.get_libraries(n, pat(l.name))))))
        for d in l.definitions:
            if d.name:
                out.append(("def", l.name, d.name, len(list(sdn.get_definitions(l, pat(d.name))))))
            for p in d.ports:
                if p.name:
                    out.append(("port", d.name, p.name, len(list(sdn.get_ports(d, pat(p.name))))))
            for c in d.cables:
                if c.name:
                    out.append(("cable", d.name, c.name, len(list(sdn.get_cables(d, pat(c.name))))))
            for i in d.children:
                if i.name:
                    out.append(("inst", d.name, i.name, len(list(sdn.get_instances(d, pat(i.name))))))
    return out


def check_netlist_clone(ctx, n, rng, st):
    U = Universe.of(n)
    s0 = snapshot.snap(U)
    ids0 = idset(U)
    c0 = canon.canon_netlist(n)
    try:
        c = n.clone()
    except Exception as ex:  # noqa: BLE001
        return "netlist-clone-raised:%s" % type(ex).__name__, "%r at %s" % (ex, probes.innermost_frame(ex))
    ctx.count("netlist_clones")
    s1 = snapshot.snap(U)
    d = snapshot.diff(s0, s1)
    if d is not None:
        return "netlist-clone-modified-source:%s" % d[0][0], "fact %s of the source changed during Netlist.clone()" % (d[0][0],)
    UC = Universe.of(c)
    shared = idset(UC) & ids0
    if shared:
        kinds = collections.Counter()
        for k in KINDS:
            for x in getattr(UC, k):
                if id(x) in shared:
                    kinds[k] += 1
        # name the first escaping pointer
        why = ""
        t = c.top_instance
        if t is not None and t.reference is not None and id(t.reference) in ids0:
            why = "top instance of the clone references the ORIGINAL top definition"
        else:
            for i in UC.insts:
                if id(i) not in ids0:
                    for op in i.pins:
                        if op.inner_pin is not None and id(op.inner_pin) in ids0:
                            why = "outer pin of a cloned instance keeps inner_pin of the ORIGINAL definition"
                            break
                if why:
                    break
        key = "netlist-clone-shares-elements"
        if why.startswith("top instance"):
            key += ":top-reference"
        elif why.startswith("outer pin"):
            key += ":outer-pin-inner-pin"
        return key, "clone and source share %d objects %s %s" % (len(shared), dict(kinds), why)
    errs = wf.self_contained(c, strict_refsets=True)
    if errs:
        return "netlist-clone-ill-formed:%s" % errs[0][0], errs[0][1]
    errs = wf.check_c01(UC) + wf.check_c02(UC)
    if errs:
        return "netlist-clone-invariant:%s" % errs[0][0], errs[0][1]
    c1 = canon.canon_netlist(c)
    dd = canon.first_diff(c0, c1)
    if dd:
        return "netlist-clone-not-faithful", dd
    if mutable_ids(fce(U)) & mutable_ids(fce(UC)):
        return "clone-shares-mutable-data", "a mutable value inside an element's data is shared between source and netlist clone"
    # (d) queries
    ctx.count("queries_compared")
    if t_safe(hquery_counts, n) != t_safe(hquery_counts, c):
        return "netlist-clone-hquery-differs", "hierarchical enumerations (names) differ between source and clone"
    fenced_ = common.fenced(sys.modules[__name__], "clone-not-registered-in-namespace")
    if fenced_:
        ctx.count("fenced:exact-name-lookups-on-clone")
        qa, qb = name_queries(n, exact=False), name_queries(c, exact=False)
    else:
        qa, qb = name_queries(n), name_queries(c)
    ctx.count("queries_compared", len(qa))
    if qa != qb:
        k = next((x, y) for x, y in zip(qa, qb) if x != y)
        if fenced_:
            # (the open finding concerns EXACT-name lookups only, and those were not asked: this is something else)
            return "netlist-clone-name-queries-differ", "wildcard name queries answer differently: source %s clone %s" % k
        return "clone-not-registered-in-namespace", "exact-name lookup answers differ: source %s clone %s" % k
    # (f) independence under edits
    for side in ("clone", "source"):
        tgt, other_u = (c, U) if side == "clone" else (n, Universe.of(c))
        before = snapshot.snap(other_u)
        eng = gen_ops.Engine(rng, "uniform", "DEFAULT", fences=("bad_position",))     # (edits here are a means, not the subject)
        eng.u = Universe.of(tgt)
        eng.weights = dict(eng.weights)
        for k in ("new_netlist", "clone_small"):
            eng.weights.pop(k, None)
        eng._ops = sorted(eng.weights)
        eng._w = [eng.weights[k] for k in eng._ops]

        class M:
            def pre(self, e, op):
                pass

            def post(self, e, op, outcome, exc, res):
                ctx.count("independence_edit_steps")
                return False
        gen_ops.run_history(eng, 25, [M()])
        dd = snapshot.diff(before, snapshot.snap(other_u))
        if dd is not None:
            return "edit-on-%s-shows-in-other:%s" % (side, dd[0][0]), "after edits on the %s, fact %s of the other netlist changed; log=%s" % (
                side, dd[0][0], eng.log[-6:])
    return None


def t_safe(f, n):
    try:
        return f(n)
    except Exception as ex:  # noqa: BLE001
        return "raised %s" % type(ex).__name__


def check_transforms_on_clone(ctx, n, st):
    """uniquify + flatten on a fresh clone must produce the same elaborated design as on the original."""
    try:
        c = n.clone()
    except Exception:  # noqa: BLE001
        return None
    d0 = elab_desc(n)
    if d0 is None:
        return None
    other = Universe.of(n)
    before = snapshot.snap(other)
    try:
        uniquify(c)
        d1 = elab_desc(c)
        flatten_ok = all(i.name is not None for l in c.libraries for d in l.definitions for i in d.children) and \
            all(x.name is not None for l in c.libraries for d in l.definitions for x in d.cables)
        if flatten_ok:
            flatten(c)
    except Exception as ex:  # noqa: BLE001
        return "transform-on-clone-raised:%s" % type(ex).__name__, "%r at %s" % (ex, probes.innermost_frame(ex))
    ctx.count("transforms_on_clone")
    if d1 is not None and d1 != d0:
        return "transform-on-clone-differs", "elaborated design of uniquified clone differs from the original's"
    dd = snapshot.diff(before, snapshot.snap(other))
    if dd is not None:
        return "transform-on-clone-shows-in-source:%s" % dd[0][0], "uniquify/flatten of the clone changed fact %s of the source" % (dd[0][0],)
    return None


def check_small_clone(ctx, kind, x, n):
    """Sub-netlist roots against the documented bullet lists."""
    U = Universe.of(n)
    s0 = snapshot.snap(U)
    ids0 = idset(U)
    try:
        # both spellings of the public entry point: element.clone() and spydrnet.clone.clone(element)
        c = x.clone() if ctx.counters["clone_roots"] % 2 == 0 else clone_function(x)
    except Exception as ex:  # noqa: BLE001
        return "%s-clone-raised:%s" % (kind, type(ex).__name__), "%r at %s" % (ex, probes.innermost_frame(ex))
    ctx.count("clone_roots")
    ctx.count("clone_root:" + kind)
    s1 = snapshot.snap(U)
    grown, other = refset_delta(s0, s1)
    if other:
        return "%s-clone-modified-source:%s" % (kind, other[0][0]), "fact %s of the source changed during %s.clone()" % (other[0], kind)
    if id(c) in ids0:
        return "%s-clone-is-source" % kind, "clone() returned an object of the source"
    if kind == "innerpin":
        if c.port is not None or c.wire is not None or grown:
            return "innerpin-clone-not-detached", "port=%s wire=%s" % (c.port, c.wire)
    elif kind == "outerpin":
        if c.instance is not None or c.inner_pin is not None or c.wire is not None or grown:
            return "outerpin-clone-not-detached", "instance/inner_pin/wire not cleared"
    elif kind == "wire":
        if c.cable is not None or len(c.pins) or grown:
            return "wire-clone-not-detached", "cable=%s pins=%d" % (c.cable, len(c.pins))
    elif kind == "cable":
        if c.definition is not None or grown:
            return "cable-clone-not-detached", "definition set or refsets changed"
        if (c.name, c.is_downto, c.is_scalar, c.lower_index, len(c.wires), canon.data_of(c)) != \
                (x.name, x.is_downto, x.is_scalar, x.lower_index, len(x.wires), canon.data_of(x)):
            return "cable-clone-not-faithful", "attributes differ"
        for w in c.wires:
            if w.cable is not c or len(w.pins) or id(w) in ids0:
                return "cable-clone-wires", "wire of the clone has pins / wrong parent / is shared"
    elif kind == "port":
        if c.definition is not None or grown:
            return "port-clone-not-detached", "definition set or refsets changed"
        if (c.name, c.direction, c.is_downto, c.is_scalar, c.lower_index, len(c.pins), canon.data_of(c)) != \
                (x.name, x.direction, x.is_downto, x.is_scalar, x.lower_index, len(x.pins), canon.data_of(x)):
            return "port-clone-not-faithful", "attributes differ"
        for p in c.pins:
            if p.port is not c or p.wire is not None or id(p) in ids0:
                return "port-clone-pins", "pin of the clone connected / wrong parent / shared"
    elif kind == "instance":
        if c.parent is not None:
            return "instance-clone-not-orphan", "parent set"
        if c.reference is not x.reference:
            return "instance-clone-reference", "reference differs"
        if not any(i is c for i in x.reference.references):
            return "instance-clone-not-in-refset", "clone missing from its reference's set"
        want = [(k, set([id(c)])) for k in [("definition.references", id(x.reference))]]
        if [(k, v) for k, v in grown] != want:
            return "instance-clone-refset-bookkeeping", "reference sets changed other than adding the clone: %s" % grown
        if (c.name, canon.data_of(c)) != (x.name, canon.data_of(x)):
            return "instance-clone-not-faithful", "name/data differ"
        ips = [ip for p in x.reference.ports for ip in p.pins]
        if [id(op.inner_pin) for op in c.pins] != [id(op.inner_pin) for op in x.pins] or len(list(c.pins)) != len(ips):
            return "instance-clone-pins", "outer pins do not map the same inner pins in order"
        for op in c.pins:
            if op.wire is not None or op.instance is not c or id(op) in ids0:
                return "instance-clone-pins", "outer pin connected / wrong instance / shared"
    elif kind == "definition":
        if c.library is not None or len(c.references):
            return "definition-clone-not-detached", "library set or clone has references"
        ca = canon.canon_definition(x, lambda r: id(r) if r is not None else None)
        cb = canon.canon_definition(c, lambda r: id(r) if r is not None else None)
        dd = canon.first_diff(ca, cb)
        if dd:
            return "definition-clone-not-faithful", dd
        UC = Universe()
        UC.add("defs", c)
        for p in c.ports:
            if id(p) in ids0 or any(id(q) in ids0 for q in p.pins):
                return "definition-clone-shares-elements", "port/pin shared with source"
        for cab in c.cables:
            if id(cab) in ids0 or any(id(w) in ids0 for w in cab.wires):
                return "definition-clone-shares-elements", "cable/wire shared with source"
            for w in cab.wires:
                for p in w.pins:
                    if id(p) in ids0:
                        return "definition-clone-shares-elements", "a wire of the clone lists a pin of the source"
        exp = collections.Counter()
        for ch, cho in zip(c.children, x.children):
            if id(ch) in ids0:
                return "definition-clone-shares-elements", "child shared"
            if ch.reference is not cho.reference or not any(i is ch for i in ch.reference.references):
                return "definition-clone-child-reference", "cloned child not registered with its reference"
            exp[id(ch.reference)] += 1
            for op in ch.pins:
                if op.inner_pin is None or op.inner_pin.port is None or op.inner_pin.port.definition is not ch.reference:
                    return "definition-clone-child-pins", "outer pin of cloned child names a foreign inner pin"
        got = collections.Counter({k[1]: len(v) for k, v in grown})
        if got != exp:
            return "definition-clone-refset-bookkeeping", "reference-set additions %s, expected %s" % (dict(got), dict(exp))
    elif kind == "library":
        if c.netlist is not None:
            return "library-clone-not-detached", "netlist set"
        inside = {id(d): k for k, d in enumerate(x.definitions)}
        cdefs = list(c.definitions)

        def rk(lib_defs):
            m = {id(d): k for k, d in enumerate(lib_defs)}
            return lambda r: None if r is None else (("in", m[id(r)]) if id(r) in m else ("out", id(r)))
        dd = canon.first_diff(canon.canon_library(x, rk(list(x.definitions))), canon.canon_library(c, rk(cdefs)))
        if dd:
            return "library-clone-not-faithful", dd
        cids = set(id(d) for d in cdefs)
        exp = collections.Counter()
        for d in cdefs:
            if d.library is not c or id(d) in ids0:
                return "library-clone-definitions", "definition shared or wrong parent"
            for ch in d.children:
                r = ch.reference
                if id(r) in inside:
                    return "library-clone-reference-escapes", "child of the cloned library still references the ORIGINAL definition %r" % r.name
                if not any(i is ch for i in r.references):
                    return "library-clone-child-not-in-refset", "cloned child missing from reference set of %r" % r.name
                if id(r) not in cids:
                    exp[id(r)] += 1
                for op in ch.pins:
                    if op.inner_pin is None or op.inner_pin.port is None or op.inner_pin.port.definition is not r:
                        return "library-clone-child-pins", "outer pin of cloned child names an inner pin outside its reference"
            for i in d.references:
                if id(i) in ids0:
                    return "library-clone-refset-has-original-instance", "reference set of cloned %r contains an instance of the source" % d.name
        got = collections.Counter({k[1]: len(v) for k, v in grown})
        if got != exp:
            return "library-clone-refset-bookkeeping", "reference-set additions %s, expected %s" % (dict(got), dict(exp))
    if kind in ("definition", "library", "instance", "port", "cable"):
        UC2 = Universe()
        UC2.add_any(c)
        if kind == "library":
            for d_ in c.definitions:
                UC2.add("defs", d_)
        for d_ in list(UC2.defs):
            for x_ in list(d_.ports) + list(d_.cables) + list(d_.children):
                UC2.add_any(x_)
        if mutable_ids(fce(U)) & mutable_ids(fce(UC2)):
            return "clone-shares-mutable-data", "a mutable value inside an element's data is shared between source and %s clone" % kind
    # invariants over source + clone
    U2 = Universe.of(n, c)
    errs = wf.check_c01(U2) + wf.check_c02(U2)
    if errs:
        return "%s-clone-invariant:%s" % (kind, errs[0][0]), errs[0][1]
    return None


def decorate(ctx, n, rng):
    """Nested mutable user data on elements of every kind (what the EDIF / Verilog readers store: lists of dicts,
    dicts of parameters), so that sharing of nested values between source and clone is observable."""
    els = [n] + [l for l in n.libraries]
    for l in n.libraries:
        for d in l.definitions:
            els += [d] + list(d.ports) + list(d.cables) + list(d.children)
    k = 0
    for e in els:
        if rng.random() < 0.35:
            e["EDIF.properties"] = [{"identifier": "P", "value": rng.randint(0, 9)}] if "EDIF.properties" not in e else e["EDIF.properties"]
            e["VERILOG.parameters"] = {"W": str(rng.randint(1, 64)), "nested": {"l": [1, 2]}}
            if rng.random() < 0.5:
                e["placement"] = ("SLICE_X%dY%d" % (k, k), ["A6LUT", "AFF"])       # hashable outside, mutable inside
            k += 1
    ctx.count("elements_with_nested_data", k)
    # data is the user's: a key the constructors stamp on every element (the naming-policy key) may have been deleted; the
    # clone then has no such key either
    k = 0
    for e in els:
        if ".NS" in e and rng.random() < 0.12:
            try:
                del e[".NS"]
                k += 1
            except Exception:  # noqa: BLE001
                pass
    ctx.count("elements_with_constructor_key_deleted", k)


def edit_after_instancing(ctx, n, rng):
    """Legal histories after which an instance's pins are NOT in the port order of its definition: ports reordered, a port
    inserted in front, an earlier port widened - all on definitions that already have instances."""
    k = 0
    for l in n.libraries:
        for d in l.definitions:
            if not len(d.references) or len(d.ports) < 1 or rng.random() < 0.5:
                continue
            how = rng.randrange(3)
            try:
                if how == 0 and len(d.ports) >= 2:
                    ps = list(d.ports)
                    ps = ps[1:] + ps[:1]
                    d.ports = ps
                elif how == 1:
                    p = sdn.Port("late_%d" % k, direction=sdn.IN)
                    p.create_pins(rng.choice([1, 2]))
                    d.add_port(p, position=0)
                else:
                    first = list(d.ports)[0]
                    if len(first.pins) >= 1 and not (first.is_scalar and len(first.pins) == 1):
                        first.create_pin()
                    else:
                        continue
                k += 1
            except (ValueError, AssertionError):
                pass
    ctx.count("definitions_edited_after_instancing", k)


def leave_stragglers(ctx, n, rng):
    """Legal earlier history that leaves instances outside the netlist in the reference sets of its definitions: a
    definition that still has children removed from its library, a child removed from its parent, a free-standing
    instance.  None of them belongs to the netlist; a clone must not refer to them."""
    defs = [d for l in n.libraries for d in l.definitions]
    lib = rng.choice(list(n.libraries))
    old = lib.create_definition("OLD_straggler")
    for k in range(rng.randint(1, 3)):
        old.create_child("x%d" % k, reference=rng.choice(defs))
    lib.remove_definition(old)
    holders = [d for d in defs if len(d.children) > 1]
    if holders and rng.random() < 0.6:
        d = rng.choice(holders)
        ch = rng.choice(list(d.children))
        for op in list(ch.pins):
            if op.wire is not None:
                op.wire.disconnect_pin(op)
        d.remove_child(ch)
    free = sdn.Instance("free_straggler")
    free.reference = rng.choice(defs)
    ctx.count("netlists_with_straggler_instances")
    return [old, free]


def shrink(n, keep):
    """The same deterministic edit for source and clone: every bundle is cut down to `keep` items (stored flags such as the
    scalar/array flag of a bundle become observable only then)."""
    k = 0
    for l in n.libraries:
        for d in l.definitions:
            for p in d.ports:
                for pin in list(p.pins)[keep:]:
                    p.remove_pin(pin)
                    k += 1
            for c in d.cables:
                for w in list(c.wires)[keep:]:
                    w.disconnect_pins_from(list(w.pins))
                    c.remove_wire(w)
                    k += 1
    return k


def check_same_edits(ctx, n):
    """(g) source and clone answer alike after the SAME later edits."""
    try:
        c = n.clone()
    except Exception:  # noqa: BLE001 - reported by check_netlist_clone
        return None
    for keep in (2, 1):
        try:
            ka, kb = shrink(n, keep), shrink(c, keep)
        except Exception as ex:  # noqa: BLE001
            return "same-edit-raised:%s" % type(ex).__name__, "%r at %s" % (ex, probes.innermost_frame(ex))
        ctx.count("same_edit_steps", ka + kb)
        dd = canon.first_diff(canon.canon_netlist(n), canon.canon_netlist(c))
        if dd or ka != kb:
            return "clone-differs-after-same-edits", "every bundle cut down to %d items on both sides: %s" % (keep, dd)
    ctx.count("same_edit_comparisons")
    return None


def run_case(ctx, i, rng):
    n = gen_ir.generate(rng, profile="any" if i % 2 else "edif", share=0.5, ndefs=rng.randint(3, 8),
                        top_child_ok=(i % 3 == 0), name_netlist=(i % 7 != 0))
    if i % 4 == 1 and n.top_instance is not None and n.top_instance.parent is None and n.top_instance.reference is not None and \
            n.top_instance.reference.library is not None:
        # the top definition is ALSO instanced from outside the top hierarchy (a test bench that holds the design): the stand-alone
        # top instance is then one of two references of its definition
        topd_ = n.top_instance.reference
        try:
            bench_ = topd_.library.create_definition("BENCH_%d" % i)
            dut_ = bench_.create_child("dut", reference=topd_)
            bw_ = bench_.create_cable("bench_net", wires=1).wires[0]
            for op_ in list(dut_.pins)[:2]:
                bw_.connect_pin(op_)
            ctx.count("top_definitions_instanced_from_outside")
        except ValueError:
            pass
    decorate(ctx, n, rng)
    if i % 2 == 1:
        edit_after_instancing(ctx, n, rng)
    keep = leave_stragglers(ctx, n, rng) if i % 2 == 0 else None
    st = gen_ir.shape_stats(n)
    r = check_netlist_clone(ctx, n, rng, st)
    if r:
        ctx.violation(r[0], "%s | %s" % (r[1], st))
        return
    # fresh netlist for the other roots (the first one was edited)
    n = gen_ir.generate(rng, profile="any" if i % 2 else "edif", share=0.5, ndefs=rng.randint(3, 8), top_child_ok=(i % 3 == 0))
    decorate(ctx, n, rng)
    st = gen_ir.shape_stats(n)
    r = check_transforms_on_clone(ctx, n, st)
    if r:
        ctx.violation(r[0], "%s | %s" % (r[1], st))
        return
    forced_lib = None
    if i % 3 == 1:
        # a child whose definition currently belongs to NO library (created stand-alone, or being moved between libraries):
        # cloning the library / definition / instance must still keep that definition's reference set up to date
        free_def = sdn.Definition("free_def")
        free_def.create_port("fp", pins=rng.choice([1, 2]), direction=sdn.IN)
        hosts = [d for l in n.libraries for d in l.definitions if d.children or d.cables]
        if hosts:
            h = rng.choice(hosts)
            try:
                h.create_child("uses_free_def", reference=free_def)
                forced_lib = h.library
                ctx.count("children_of_libraryless_definitions")
            except ValueError:
                pass
    full = ctx.tier == "thorough" and i % 4 == 0
    defs = [d for l in n.libraries for d in l.definitions]

    def pick(lst, k):
        lst = list(lst)
        return lst if (full or len(lst) <= k) else rng.sample(lst, k)
    roots = [("library", l) for l in pick(n.libraries, 2)]
    if forced_lib is not None and not any(x is forced_lib for _, x in roots):
        roots.append(("library", forced_lib))
    roots += [("definition", d) for d in pick(defs, 4)]
    roots += [("instance", x) for x in pick([c for d in defs for c in d.children] + [n.top_instance], 4)]
    roots += [("port", p) for p in pick([p for d in defs for p in d.ports], 3)]
    roots += [("cable", c) for c in pick([c for d in defs for c in d.cables], 3)]
    roots += [("wire", w) for w in pick([w for d in defs for c in d.cables for w in c.wires], 2)]
    roots += [("innerpin", x) for x in pick([x for d in defs for p in d.ports for x in p.pins], 2)]
    roots += [("outerpin", x) for x in pick([op for d in defs for c in d.children for op in c.pins], 2)]
    cross = any(c.reference.library is not d.library for d in defs for c in d.children)
    for kind, x in roots:
        r = check_small_clone(ctx, kind, x, n)
        if r:
            ctx.violation(r[0], "%s | %s" % (r[1], st))
            return
    r = check_same_edits(ctx, n)
    if r:
        ctx.violation(r[0], "%s | %s" % (r[1], st))
        return
    ctx.fingerprint((st, len(roots)), (cross or st["shared"] > 0) and len(roots) >= 15)
    if i < 3:
        ctx.sample({"shape": st, "roots": collections.Counter(k for k, _ in roots)})
