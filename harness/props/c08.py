"""C08 - uniquify makes every non-leaf instance unique without changing the design.

Monitor: independent elaboration (occurrence tree by child position, instance names, leaf cell at every leaf
path, partition of leaf-pin / top-port-bit endpoints by union-find over hierarchical wires) before vs after
uniquify(); uniqueness walk along every path from the top; placement and naming of new definitions; well-
formedness; idempotence by universe snapshot; C01/C02 invariants at every outermost mutator exit inside
uniquify (probe layer)."""
from .. import common

common.setup_env()
import spydrnet as sdn  # noqa: E402
from spydrnet.uniquify import uniquify  # noqa: E402

from .. import gen_ir, wf, snapshot, probes  # noqa: E402
from ..elab import Elab  # noqa: E402
from ..universe import Universe  # noqa: E402

PROP = "C08"
LEVEL = "exploration"
RULE = ("case = one generated netlist (G-IR: 1-3 libraries, shared definitions instanced several times per parent, at "
        "several depths, across libraries and by instances outside the top hierarchy; pass-through and wire-only cells, "
        "unconnected pins, buses; named or partly unnamed) -> uniquify -> uniquify; distinct = shape+connectivity hash; "
        "non-trivial = at least one non-leaf definition shared below the top before uniquify and hierarchy depth >= 2")
ASSUMPTIONS = ["generated names never end in _sdn_unique_<n>", "children all have a reference (well-formed netlists)"]
REQUIRED = {"uniquified": 100, "definitions_cloned": 100, "endpoint_classes_compared": 1000,
            "histories_with_the_top_elsewhere_before": 10}
PROBES = {}


def plan(tier):
    if tier == "thorough":
        return {"cases": 16 * 1200, "shards": 16, "shard_budget_s": 1500, "watchdog_s": 2400}
    return {"cases": 240, "shards": 4, "shard_budget_s": 200, "watchdog_s": 600}


def describe(e, keyfn):
    tree = {}
    leaves = {}
    for p in e.occ:
        k = keyfn(p)
        tree[k] = p[-1].name
    for p in e.leaf_occ:
        leaves[keyfn(p)] = id(p[-1].reference)
    return tree, leaves, e.partition(keyfn)


def check_uniquified(ctx, n, e_before, before, tag):
    e_after = Elab(n)
    after = describe(e_after, e_after.index_path)
    if before[0] != after[0]:
        return "instance-tree-changed", "tree of hierarchical instance names differs after %s" % tag
    if before[1] != after[1]:
        return "leaf-type-changed", "leaf cell type at some path differs after %s" % tag
    ctx.count("endpoint_classes_compared", len(after[2]))
    if before[2] != after[2]:
        a, b = before[2] - after[2], after[2] - before[2]
        return "connectivity-changed", "endpoint partition differs after %s: %d classes only before, %d only after (sizes %s / %s)" % (
            tag, len(a), len(b), sorted(len(x) for x in a)[:5], sorted(len(x) for x in b)[:5])
    # uniqueness along every path from the top
    for p in e_after.hier_occ:
        if not p:
            continue
        d = p[-1].reference
        if len(d.references) != 1:
            return "not-unique", "non-leaf instance %r at depth %d shares its definition with %d instances" % (
                p[-1].name, len(p), len(d.references))
    errs = wf.self_contained(n)
    if errs:
        return "ill-formed:" + errs[0][0], "%s after %s" % (errs[0][1], tag)
    # placement / naming of new definitions
    by_idx_before = e_before
    orig_lib = getattr(check_uniquified, "_orig_lib")
    for p in e_after.occ:
        d1 = p[-1].reference
        d0 = by_idx_before[e_after.index_path(p)]
        if d1 is not d0:
            ctx.count("definitions_cloned")
            want_lib = orig_lib.get(id(d0))
            if want_lib is not None and d1.library is not want_lib:
                return "new-definition-misplaced", "clone of %r is in library %r, original in %r" % (
                    d0.name, d1.library.name if d1.library else None, want_lib.name)
    for l in n.libraries:
        names = [d.name for d in l.definitions if d.name is not None]
        if len(names) != len(set(names)):
            return "duplicate-definition-name", "library %r has duplicate definition names after %s" % (l.name, tag)
        idents = [d["EDIF.identifier"].lower() for d in l.definitions if "EDIF.identifier" in d]
        if len(idents) != len(set(idents)):
            dup = next(v for v in idents if idents.count(v) > 1)
            return "duplicate-definition-identifier", "library %r has two definitions with EDIF.identifier %r after %s" % (l.name, dup, tag)
    return None


def run_case(ctx, i, rng):
    profile = "any" if i % 3 == 0 else "flatten"
    n = gen_ir.generate(rng, profile=profile, share=0.7, ndefs=rng.randint(3, 10), max_children=rng.choice([3, 4, 5]), big=(i % 30 == 7))
    # "any" may produce children without pins etc. but all children have references
    with_ids = (i % 4 == 1)
    if with_ids:
        # like a netlist that was parsed from EDIF or exported once: definitions (and some instances) carry EDIF identifiers
        for l in n.libraries:
            for d_ in l.definitions:
                if d_.name:
                    d_["EDIF.identifier"] = d_.name
                for c_ in d_.children:
                    if c_.name and rng.random() < 0.5:
                        c_["EDIF.identifier"] = c_.name
    if i % 3 == 1:
        # instances outside the top hierarchy that have NO parent: a free-standing instance and a child taken out of its
        # definition but kept by the caller; both still share the definitions they reference
        hd = [d_ for l in n.libraries for d_ in l.definitions if (d_.children or d_.cables) and d_.references and
              d_ is not n.top_instance.reference]
        keep_alive = []
        for d_ in rng.sample(hd, min(len(hd), 2)):
            f_ = sdn.Instance("free_%d" % len(keep_alive))
            f_.reference = d_
            keep_alive.append(f_)
            ctx.count("parentless_sharers")
        run_case._keep = keep_alive
    if i % 4 == 2:
        # definitions edited AFTER they were instanced: a port inserted in front / a non-last port widened, so that the order
        # in which instances received their pins differs from the port order of the definition
        shared_defs = [d_ for l in n.libraries for d_ in l.definitions if len(d_.references) >= 2 and (d_.children or d_.cables)]
        for d_ in rng.sample(shared_defs, min(len(shared_defs), 2)):
            try:
                np_ = sdn.Port("late_%d" % rng.randrange(1000), direction=sdn.IN)
                np_.create_pins(rng.choice([1, 2]))
                d_.add_port(np_, position=0)
                if len(d_.ports) > 2 and rng.random() < 0.5:
                    list(d_.ports)[1].create_pin()
            except ValueError:
                continue
            inner = [w for c in d_.cables for w in c.wires]
            for pin in np_.pins:
                if inner and rng.random() < 0.8:
                    rng.choice(inner).connect_pin(pin)
                for inst in list(d_.references):
                    if inst.parent is None:
                        continue
                    outer = [w for c in inst.parent.cables for w in c.wires]
                    if outer and rng.random() < 0.8:
                        rng.choice(outer).connect_pin(inst.pins[pin])
            ctx.count("definitions_edited_after_instancing")
    if i % 6 == 2 and n.top_instance.reference.library is not None:
        # the top definition is ALSO instanced from outside the top hierarchy (a test bench that holds the design)
        topd_ = n.top_instance.reference
        try:
            bench_ = topd_.library.create_definition("BENCH_%d" % i)
            bench_.create_child("dut", reference=topd_)
            ctx.count("top_definitions_instanced_from_outside")
        except ValueError:
            pass
    if i % 5 in (1, 3):
        # sharing that sits DEEP: below the top a chain of instances that are each the only instance of their definition, and
        # at its end a non-leaf definition used twice
        topd = n.top_instance.reference
        cands = [d_ for l in n.libraries for d_ in l.definitions if d_.children and d_ is not topd and d_.library is not None and
                 not any(c_.reference is topd for c_ in d_.children)]       # (not the bench that holds the design: no recursion)
        if cands and topd.library is not None:
            a_ = rng.choice(cands)
            lib_ = a_.library
            try:
                tag = "deep%d" % i
                inner = lib_.create_definition(tag + "_U")
                inner.create_child("a1", reference=a_)
                inner.create_child("a2", reference=a_)
                cur = inner
                for k_ in range(rng.randint(1, 3)):
                    nxt = lib_.create_definition("%s_X%d" % (tag, k_))
                    nxt.create_child("only", reference=cur)
                    cur = nxt
                topd.create_child(tag + "_x", reference=cur)
                ctx.count("deep_sharing_chains_planted")
            except ValueError:
                pass
    if i % 4 == 3 or i % 9 == 4:
        # an earlier look at part of the design: a second netlist object whose top is an instance BELOW this netlist's top (a
        # "view"), or the top moved down with one spelling of the call and back with the other - this netlist's top is what it was
        topd = n.top_instance.reference
        below = [c_ for c_ in topd.children if c_.reference is not None and c_.reference.children]
        below += [g_ for c_ in below for g_ in c_.reference.children if g_.reference is not None and g_.reference.children]
        if below:
            m_ = rng.choice(below)
            real_top = n.top_instance
            if rng.random() < 0.5:
                view = sdn.Netlist("view")
                view.top_instance = m_
                if rng.random() < 0.5:
                    view.top_instance = None
            else:
                n.top_instance = m_
                n.set_top_instance(real_top)
            assert n.top_instance is real_top
            ctx.count("histories_with_the_top_elsewhere_before")
    if i % 8 == 5:
        # definitions need not have names: a shared non-leaf cell without one (as in the library's own examples)
        shared_ = [d_ for l in n.libraries for d_ in l.definitions if d_.children and len(d_.references) > 1 and d_.name and
                   d_ is not n.top_instance.reference]
        for d_ in shared_[:2]:
            try:
                if "EDIF.identifier" in d_:
                    d_.pop("EDIF.identifier")       # (no name and no identifier: an anonymous cell)
                del d_.name
                ctx.count("shared_cells_left_nameless")
            except ValueError:
                pass
    e0 = Elab(n, max_occ=2500)
    if e0.truncated:
        ctx.count("discarded_too_large")
        return
    before = describe(e0, e0.index_path)
    ref_before = {e0.index_path(p): p[-1].reference for p in e0.occ}
    shared = sum(1 for p in e0.hier_occ if p and len(p[-1].reference.references) > 1)
    depth = max([len(p) for p in e0.occ] or [0])
    st = gen_ir.shape_stats(n)
    check_uniquified._orig_lib = {id(d): d.library for l in n.libraries for d in l.definitions}
    u = Universe.of(n)
    probes.install()
    hook_state = {"n": 0, "bad": None}

    def post(label, a, k, r, e):
        hook_state["n"] += 1
        if hook_state["bad"] is None and hook_state["n"] % max(2, u.size() // 250) == 0:
            u.close()
            errs = wf.check_c01(u) + wf.check_c02(u)
            ctx.count("embedded_invariant_evals")
            if errs:
                hook_state["bad"] = (label, errs[0])
    probes.State.post.append(post)
    try:
        try:
            uniquify(n)
        except Exception as ex:  # noqa: BLE001
            ctx.violation("uniquify-raised:%s" % type(ex).__name__, "%r at %s on %s" % (ex, probes.innermost_frame(ex), st))
            return
    finally:
        probes.reset_hooks()
    ctx.count("uniquified")
    if hook_state["bad"]:
        ctx.violation("invariant-inside-uniquify:%s" % hook_state["bad"][1][0], "%s at exit of %s" % (hook_state["bad"][1][1], hook_state["bad"][0]))
        return
    r = check_uniquified(ctx, n, ref_before, before, "uniquify")
    if r:
        ctx.violation(r[0], "%s | shape=%s" % (r[1], st))
        return
    u = Universe.of(n)
    s1 = snapshot.snap(u)
    uniquify(n)
    u2 = Universe.of(n)
    s2 = snapshot.snap(u2)
    d = snapshot.diff(s1, s2, ignore_new=False)
    if d is not None:
        ctx.violation("not-idempotent:%s" % d[0][0], "second uniquify changed fact %s" % (d[0][0],))
        return
    # a later edit shares a definition again; uniquify once more in the same process: fresh names are still required
    hier_defs = [p[-1].reference for p in Elab(n, max_occ=2500).hier_occ if p]
    if hier_defs:
        dshare = rng.choice(hier_defs)
        host = n.top_instance.reference
        try:
            host.create_child("again_%d" % i, reference=dshare)
        except Exception:  # noqa: BLE001
            dshare = None
        if dshare is not None:
            e1 = Elab(n, max_occ=2500)
            if not e1.truncated:
                before1 = describe(e1, e1.index_path)
                ref_before1 = {e1.index_path(p): p[-1].reference for p in e1.occ}
                check_uniquified._orig_lib = {id(d): d.library for l in n.libraries for d in l.definitions}
                try:
                    uniquify(n)
                except Exception as ex:  # noqa: BLE001
                    ctx.violation("second-uniquify-after-edit-raised:%s" % type(ex).__name__, "%r at %s on %s" % (ex, probes.innermost_frame(ex), st))
                    return
                ctx.count("uniquified_again_after_edit")
                r = check_uniquified(ctx, n, ref_before1, before1, "uniquify after re-sharing a definition")
                if r:
                    ctx.violation("after-edit:" + r[0], "%s | shape=%s" % (r[1], st))
                    return
    ctx.fingerprint((st, sorted(len(c) for c in before[2])), shared >= 1 and depth >= 2)
    ctx.count("shared_nonleaf_occurrences", shared)
    if i < 3:
        ctx.sample({"profile": profile, "shape": st, "occurrences": len(e0.occ), "shared_nonleaf_occurrences": shared,
                    "endpoint_classes": len(before[2])})
