"""C01 - IR ownership and pin/wire links stay mutually consistent under any edit history.

Monitor: invariant hook I1-I4 (wf.check_c01) over the whole universe after EVERY outermost mutator exit
(accepted, refused or crashed), plus transition check I5 on reorder assignments.  A second workload runs
the readers / uniquify / flatten / clone under the probe layer so that the same invariants are evaluated at
every outermost mutator exit *inside* those library routines."""
import sys
import collections

from .. import common

common.setup_env()
import spydrnet as sdn  # noqa: E402

from .. import probes, wf, gen_ops  # noqa: E402
from ..universe import Universe  # noqa: E402

PROP = "C01"
LEVEL = "exploration"
RULE = ("case = one random history of 60-200 public mutator calls (valid and invalid arguments incl. proxy/stale "
        "outer pins, 1-3 netlists + orphans) under one naming policy; distinct = distinct (op kind, outcome) "
        "sequence hash; non-trivial = history with >=20 accepted and >=5 refused calls and >=1 connected pin. "
        "Invariants I1-I4 are evaluated over the whole universe after every call; I5 on every reorder assignment.")
ASSUMPTIONS = ["oracle uses only the public read API", "proxy outer pins are inputs, not members of the universe",
               "histories stay under one naming policy (docs disclaim switching mid-netlist)"]
REQUIRED = {"invariant_evals": 1000, "calls_ok": 500, "calls_refusal": 100, "reorders_checked": 20}
BADPOS = "non-integer-position-fails-late"
PROBES = {BADPOS: lambda: gen_ops.probe_bad_position("connect")}


def plan(tier):
    if tier == "thorough":
        return {"cases": 16 * 900, "shards": 16, "shard_budget_s": 1500, "watchdog_s": 2400}
    return {"cases": 360, "shards": 4, "shard_budget_s": 200, "watchdog_s": 600}


class C01Monitor:
    def __init__(self, ctx, check=wf.check_c01, prefix=""):
        self.ctx = ctx
        self.check = check
        self.before = None
        self.prefix = prefix

    def pre(self, eng, op):
        self.before = None
        if op.label.endswith("=") and op.kind and op.kind.startswith("set_") and op.kind not in ("set_reference", "set_top_instance"):
            attr = op.label.split(".")[1][:-1]
            self.before = (attr, [id(x) for x in getattr(op.subject, attr)])

    def post(self, eng, op, outcome, exc, result):
        ctx = self.ctx
        ctx.count("calls_" + outcome)
        ctx.count("op:%s:%s" % (op.label, outcome))
        if outcome == "crash":
            ctx.count("crash:%s:%s" % (op.label, probes.innermost_frame(exc)))
        if self.before is not None:
            attr, ids = self.before
            after = [id(x) for x in getattr(op.subject, attr)]
            ctx.count("reorders_checked")
            if outcome == "ok":
                if sorted(after) != sorted(ids):
                    ctx.violation("I5-reorder-changed-members", "%s accepted %s and changed the member multiset %d -> %d; log=%s" % (
                        op.label, op.strat, len(ids), len(after), eng.log[-8:]))
                    return True
                if op.strat != "valid":
                    ctx.violation("I5-non-permutation-accepted", "%s accepted a %s assignment; log=%s" % (op.label, op.strat, eng.log[-8:]))
                    return True
            elif after != ids:
                ctx.violation("I5-refused-reorder-changed-list", "%s refused but list changed; log=%s" % (op.label, eng.log[-8:]))
                return True
        errs = self.check(eng.u)
        ctx.count("invariant_evals")
        if not errs and self.prefix == "":
            # a by-value handle (instance, inner pin) is the documented way to name an instance pin: it must FIND the pin the
            # instance holds - equal to it, and with the same hash - also after the instance was re-pointed
            for inst in eng.u.insts:
                for ip_, op_ in list(inst.pins.items())[:6]:
                    h_ = sdn.OuterPin.from_instance_and_inner_pin(inst, ip_)
                    ctx.count("handle_lookups_checked")
                    if not (h_ == op_ and hash(h_) == hash(op_) and h_ in {op_}):
                        errs = [("I10-handle-does-not-find-pin", "a handle built from (instance, inner pin) is not found among the pins it "
                                 "denotes (equal=%s, same hash=%s)" % (h_ == op_, hash(h_) == hash(op_)))]
                        break
                if errs:
                    break
        if errs:
            code, detail = errs[0]
            ctx.violation("%s%s@%s%s" % (self.prefix, code, op.label, "" if outcome == "ok" else ":" + outcome),
                          "%s | after %s (%s, %s) | %d facts failing | log=%s" % (detail, op.desc, op.strat, outcome, len(errs), eng.log[-10:]))
            return True
        return False


def run_case(ctx, i, rng):
    if i == 0 and ctx.tier == "thorough":
        # one more workload: the repository's own test suite under the same invariant monitor (harness/suite_monitor.py)
        import signal
        from .. import suite_run
        suite_run.suite_case(ctx, "c01")
        signal.alarm(300)
    policy = "EDIF" if i % 3 == 2 else "DEFAULT"
    sdn.namespace_manager.default = policy
    try:
        if i % 10 == 9:
            return embedded_case(ctx, i, rng)
        # (open finding: only connect_pin is kept away from non-integer positions - for the add_* calls C01's facts hold)
        eng = gen_ops.Engine(rng, "uniform", policy, fences=("bad_position_connect",) if common.fenced(sys.modules[__name__], BADPOS) else ())
        n = rng.randint(60, 200)
        gen_ops.run_history(eng, n, [C01Monitor(ctx)])
        oks = sum(1 for e in eng.log if e[3] == "ok")
        ref = sum(1 for e in eng.log if e[3].startswith("refusal"))
        conn = sum(1 for w in eng.u.wires if len(w.pins))
        ctx.fingerprint([(e[1], e[3]) for e in eng.log], oks >= 20 and ref >= 5 and conn >= 1)
        ctx.count("universe_objects", eng.u.size())
        if i < 2:
            ctx.sample({"policy": policy, "history_head": eng.log[:25], "universe_size": eng.u.size()})
    finally:
        sdn.namespace_manager.default = "DEFAULT"


def embedded_case(ctx, i, rng):
    """Readers, uniquify, flatten and clone run under the probe layer: invariants at every outermost exit."""
    from .. import gen_ir
    from spydrnet.uniquify import uniquify
    from spydrnet.flatten import flatten
    probes.install()
    n = gen_ir.generate(rng, profile="flatten")
    from ..elab import Elab
    if Elab(n, max_occ=400).truncated:      # (uniquify makes one cell per occurrence and the hooks walk all of them: quadratic)
        ctx.count("embedded_discarded_too_large")
        return
    u = Universe.of(n)
    state = {"n": 0, "bad": None}

    def post(label, a, k, r, e):
        state["n"] += 1
        if state["bad"] is None and state["n"] % max(3, u.size() // 100) == 0:
            u.close()
            errs = wf.check_c01(u)
            ctx.count("invariant_evals")
            ctx.count("embedded_invariant_evals")
            if errs:
                state["bad"] = (label, errs[0])
    probes.State.post.append(post)
    try:
        what = rng.choice(["uniquify+flatten", "clone", "uniquify"])
        if what == "clone":
            c = n.clone()
            u.add_any(c)
        else:
            uniquify(n)
            if what == "uniquify+flatten":
                flatten(n)
        u.close()
        errs = wf.check_c01(u)
        ctx.count("invariant_evals")
        if errs and state["bad"] is None:
            state["bad"] = ("end of " + what, errs[0])
    finally:
        probes.reset_hooks()
    if state["bad"]:
        ctx.violation("embedded-%s@%s" % (state["bad"][1][0], state["bad"][0]), "%s during %s" % (state["bad"][1][1], what))
    ctx.fingerprint(("embedded", what, i), state["n"] > 10)
    ctx.count("embedded_cases")
