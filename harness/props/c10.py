"""C10 - sibling names stay unique and exact-name lookup always agrees with a scan.

Monitor (after every step of 'naming' histories, each under one policy):
 (a) stateless scan of every scope: no two siblings share a .NAME; under the EDIF policy no two share an
     EDIF.identifier ignoring case and every identifier is legal;
 (b) refusal exactness: a naming refusal (ValueError) must coincide with an independent duplicate / legality
     check on the CURRENT siblings, computed before the call; a structurally valid naming edit that the check
     allows must be accepted;
 (c) lookups: get_libraries/definitions/ports/cables/instances(parent, value, key=k) for k in {.NAME,
     EDIF.identifier} and every value of the colliding alphabet vs a linear scan of the parent's children (scopes
     touched by the step every step, all scopes every 8th step and at the end);
 plus netlists produced by the EDIF / Verilog readers and by clone()."""
import re
import sys

from .. import common

common.setup_env()
import spydrnet as sdn  # noqa: E402

from .. import gen_ops, probes  # noqa: E402

PROP = "C10"
LEVEL = "exploration"
RULE = ("case = one 'naming' history (create/add/remove/re-add, rename, name=None, del/pop of .NAME and EDIF.identifier, "
        "moves between parents, small clones) of 100-220 steps over a 9-name colliding alphabet (case variants) entirely "
        "under DEFAULT or EDIF policy; every 6th case instead checks lookups on reader-produced and cloned netlists; "
        "distinct = (op,outcome) sequence hash; non-trivial = >=5 naming refusals and >=10 accepted renames")
ASSUMPTIONS = ["EDIF identifier legality: [A-Za-z][A-Za-z0-9_]{0,254} or &[A-Za-z0-9_]{1,255} (EDIF 2 0 0)",
               "under the DEFAULT policy identifiers are free-form and may repeat (documented)"]
REQUIRED = {"scope_scans": 20000, "lookups_compared": 200000, "naming_edits_judged": 5000,
            "edits_right_after_a_policy_change": 30}
ALPHABET = gen_ops.NAMES + [x for x in gen_ops.IDS if x not in gen_ops.NAMES]
LEGAL = re.compile(r"^(?:[A-Za-z][A-Za-z0-9_]{0,254}|&[A-Za-z0-9_]{1,255})$")
KEYS = (".NAME", "EDIF.identifier")


def plan(tier):
    if tier == "thorough":
        return {"cases": 16 * 400, "shards": 16, "shard_budget_s": 1500, "watchdog_s": 2400}
    return {"cases": 160, "shards": 4, "shard_budget_s": 240, "watchdog_s": 600}


def scopes_of(x):
    """(getter, children) pairs for an element that is a naming scope."""
    if isinstance(x, sdn.Netlist):
        return [("lib", sdn.get_libraries, list(x.libraries))]
    if isinstance(x, sdn.Library):
        return [("def", sdn.get_definitions, list(x.definitions))]
    if isinstance(x, sdn.Definition):
        return [("port", sdn.get_ports, list(x.ports)), ("cable", sdn.get_cables, list(x.cables)),
                ("inst", sdn.get_instances, list(x.children))]
    return []


def parent_of(x):
    if isinstance(x, sdn.Library):
        return x.netlist
    if isinstance(x, sdn.Definition):
        return x.library
    if isinstance(x, (sdn.Port, sdn.Cable)):
        return x.definition
    if isinstance(x, sdn.Instance):
        return x.parent
    return None


def siblings(parent, x):
    for kind, _, ch in scopes_of(parent):
        if ch and type(ch[0]) is type(x):
            return ch
    if isinstance(parent, sdn.Definition):
        if isinstance(x, sdn.Port):
            return list(parent.ports)
        if isinstance(x, sdn.Cable):
            return list(parent.cables)
        return list(parent.children)
    return []


def policy_of(x):
    return x.get(".NS", None)


def eq(policy, key, a, b):
    if a is None or b is None:
        return a is b
    if key == "EDIF.identifier" and policy == "EDIF" and isinstance(a, str) and isinstance(b, str):
        return a.lower() == b.lower()
    return a == b


def conflict(parent, x, key, value):
    """Would giving x the value under key collide with a current sibling?"""
    if parent is None:
        return False
    pol = policy_of(parent)
    if key == "EDIF.identifier" and pol != "EDIF":
        return False
    for s in siblings(parent, x):
        if s is not x and key in s and eq(pol, key, s[key], value):
            return True
    return False


def scan_scope(ctx, parent):
    pol = policy_of(parent)
    for kind, getter, ch in scopes_of(parent):
        ctx.count("scope_scans")
        names = [c[".NAME"] for c in ch if ".NAME" in c]
        if any(v is None for v in names):
            # "no name" is the ABSENCE of the key: a stored None takes part in uniqueness and lookups like a name
            return "none-stored-as-name:%s" % kind, "a %s of %s carries .NAME = None" % (kind, type(parent).__name__)
        if len(names) != len(set(names)):
            dup = next(v for v in names if names.count(v) > 1)
            return "duplicate-name:%s" % kind, "two %ss of one %s share .NAME %r" % (kind, type(parent).__name__, dup)
        if pol == "EDIF":
            ids_ = [c["EDIF.identifier"] for c in ch if "EDIF.identifier" in c]
            low = [v.lower() for v in ids_ if isinstance(v, str)]
            if len(low) != len(set(low)):
                return "duplicate-identifier:%s" % kind, "two %ss share an EDIF.identifier ignoring case: %r" % (kind, sorted(ids_))
            for v in ids_:
                if not isinstance(v, str) or not LEGAL.match(v):
                    return "illegal-identifier:%s" % kind, "%s holds illegal EDIF.identifier %r" % (kind, v)
    return None


def lookup_scope(ctx, parent, values=ALPHABET):
    pol = policy_of(parent)
    for kind, getter, ch in scopes_of(parent):
        for k in KEYS:
            if k == "EDIF.identifier" and pol != "EDIF" and common.fenced(sys.modules[__name__], "identifier-lookup-under-default-policy"):
                ctx.count("fenced:identifier-lookups-under-default-policy")
                continue
            for v in values:
                got = list(getter(parent, v, key=k))
                want = [c for c in ch if k in c and eq(pol, k, c[k], v)]
                ctx.count("lookups_compared")
                if len(got) != len(want) or any(a is not b for a, b in zip(sorted(got, key=id), sorted(want, key=id))):
                    if k == "EDIF.identifier" and pol != "EDIF":
                        key = "identifier-lookup-under-default-policy"
                    elif not got and want:
                        key = "lookup-misses-element"
                    elif got and not want:
                        key = "lookup-returns-ghost"
                    else:
                        key = "lookup-differs"
                    return key, "get_%s(%s, %r, key=%r) returned %d element(s), scan finds %d (policy %s)" % (
                        kind, type(parent).__name__, v, k, len(got), len(want), pol)
    return None


class C10Monitor:
    def __init__(self, ctx):
        self.ctx = ctx
        self.pred = None
        self.refusals = 0
        self.renames = 0
        self.fence_none = False

    def predict(self, eng, op):
        """None = not a naming edit we judge; else (must_refuse: bool, why)."""
        lab = op.label
        if lab in ("FirstClassElement.name=", "FirstClassElement.__setitem__") and op.args and op.args[0] in KEYS:
            x, (key, value) = op.subject, op.args
            if value is None:
                return (False, "un-naming")
            if key == "EDIF.identifier" and policy_of(x) == "EDIF" and not LEGAL.match(value):
                return (True, "illegal identifier")
            return (conflict(parent_of(x), x, key, value), "sibling holds the value")
        if lab in ("Netlist.create_library", "Library.create_definition", "Definition.create_port",
                   "Definition.create_cable", "Definition.create_child"):
            nm = op.args[0]
            P = op.subject
            props = op.args[1] if len(op.args) > 1 and isinstance(op.args[1], dict) else {}
            ident = props.get("EDIF.identifier")
            typ = {"Netlist.create_library": sdn.Library, "Library.create_definition": sdn.Definition,
                   "Definition.create_port": sdn.Port, "Definition.create_cable": sdn.Cable,
                   "Definition.create_child": sdn.Instance}[lab]
            if ident is not None and policy_of(P) == "EDIF":
                if not LEGAL.match(ident):
                    return (True, "illegal identifier in properties")
                chs = [c for _, _, cs in scopes_of(P) for c in cs if isinstance(c, typ)]
                if any("EDIF.identifier" in c and c["EDIF.identifier"].lower() == ident.lower() for c in chs):
                    return (True, "sibling holds the identifier given in properties")
            if nm is None:
                return (False, "unnamed")
            ch = [c for _, _, chs in scopes_of(P) for c in chs if isinstance(c, typ)]
            return (any(".NAME" in c and c[".NAME"] == nm for c in ch), "sibling holds the name")
        if lab in ("Netlist.add_library", "Library.add_definition", "Definition.add_port", "Definition.add_cable",
                   "Definition.add_child"):
            P, x = op.subject, op.args[0]
            if parent_of(x) is not None or not isinstance(x, {"Netlist.add_library": sdn.Library,
                                                                "Library.add_definition": sdn.Definition,
                                                                "Definition.add_port": sdn.Port,
                                                                "Definition.add_cable": sdn.Cable,
                                                                "Definition.add_child": sdn.Instance}[lab]):
                return None
            pol = policy_of(P)
            bad = False
            for key in KEYS:
                if key in x:
                    if key == "EDIF.identifier" and pol != "EDIF":
                        continue
                    ch = [c for _, _, chs in scopes_of(P) for c in chs if type(c) is type(x)]
                    if any(c is not x and key in c and eq(pol, key, c[key], x[key]) for c in ch):
                        bad = True
            return (bad, "sibling holds name/identifier of the added element")
        return None

    def pre(self, eng, op):
        self.pred = self.predict(eng, op)
        self.touched = [p for p in (op.subject, parent_of(op.subject) if op.subject is not None else None) if p is not None]
        for a in op.args:
            if isinstance(a, (sdn.Netlist, sdn.Library, sdn.Definition, sdn.Port, sdn.Cable, sdn.Instance)):
                p = parent_of(a)
                if p is not None:
                    self.touched.append(p)

    def post(self, eng, op, outcome, exc, result):
        ctx = self.ctx
        ctx.count("calls_" + outcome)
        naming_refusal = isinstance(exc, ValueError) or (isinstance(exc, TypeError) and outcome == "refusal")
        if self.pred is not None and (outcome == "ok" or naming_refusal):
            must, why = self.pred
            ctx.count("naming_edits_judged")
            if naming_refusal:
                self.refusals += 1
            elif op.label.startswith("FirstClassElement"):
                self.renames += 1
            if naming_refusal and not must:
                k = "false-conflict@%s" % op.label
                if op.args and op.args[-1] is None or "None" in str(exc):
                    k = "false-conflict-none-name@%s" % op.label
                ctx.violation(k, "%s refused (%s: %s) although no current sibling conflicts; log=%s" % (
                    op.desc, type(exc).__name__, str(exc)[:60], eng.log[-8:]))
                return True
            if outcome == "ok" and must:
                ctx.violation("conflict-accepted@%s" % op.label, "%s accepted although %s; log=%s" % (op.desc, why, eng.log[-8:]))
                return True
        elif naming_refusal and self.pred is None and isinstance(exc, ValueError) and "nam" in str(exc).lower():
            ctx.count("unjudged_naming_refusal:%s" % op.label)
        full = (len(eng.log) % 8 == 0)
        scopes = (eng.u.netlists + eng.u.libs + eng.u.defs) if full else self.touched + [
            x for x in (result if isinstance(result, (list, tuple)) else [result]) if isinstance(x, (sdn.Netlist, sdn.Library, sdn.Definition))]
        seen = set()
        for P in scopes:
            if id(P) in seen or not isinstance(P, (sdn.Netlist, sdn.Library, sdn.Definition)):
                continue
            seen.add(id(P))
            r = scan_scope(ctx, P) or lookup_scope(ctx, P)
            if r:
                ctx.violation("%s@%s" % (r[0], op.label), "%s after %s (%s); log=%s" % (r[1], op.desc, outcome, eng.log[-8:]))
                return True
        return False


def reader_case(ctx, i, rng):
    """Lookups on reader-produced and cloned netlists."""
    import glob
    import os
    files = sorted(glob.glob(os.path.join(common.REPO, "example_netlists", "*", "*.zip")))
    files = [f for f in files if 400 < os.path.getsize(f) < 4000]
    f = files[rng.randrange(len(files))]
    n = sdn.parse(f)
    ctx.count("reader_netlists")
    vals = []
    for l in n.libraries:
        vals += [l.name, l.get("EDIF.identifier")]
        for d in list(l.definitions)[:6]:
            vals += [d.name, d.get("EDIF.identifier")]
            for x in (list(d.ports) + list(d.cables) + list(d.children))[:8]:
                vals += [x.name, x.get("EDIF.identifier")]
    vals = sorted(set(v for v in vals if isinstance(v, str)))[:25]
    vals += [v.swapcase() for v in vals[:8]]
    for P in [n] + list(n.libraries) + [d for l in n.libraries for d in l.definitions][:10]:
        r = scan_scope(ctx, P) or lookup_scope(ctx, P, vals)
        if r:
            ctx.violation("reader:%s" % r[0], "%s on %s" % (r[1], os.path.basename(f)))
            return
    if not common.fenced(sys.modules[__name__], "clone-not-registered-in-namespace"):
        c = n.clone()
        for P in [c] + list(c.libraries) + [d for l in c.libraries for d in l.definitions][:10]:
            r = scan_scope(ctx, P) or lookup_scope(ctx, P, vals)
            if r:
                ctx.violation("clone-not-registered-in-namespace", "%s on clone of %s" % (r[1], os.path.basename(f)))
                return
    else:
        ctx.count("fenced:lookups-on-clones")
    ctx.fingerprint(("reader", os.path.basename(f)), True)


def query_then_edit(ctx, scope, rng, stage, memo={}):
    """The scope that was asked LAST before a policy change reaches it (stage "ask": one exact query, nothing else is asked
    until the add), and after the add an edit below it followed at once by exact queries on it (stage "edit"): an index kept per
    (parent, policy) must not answer from the object that served the last question."""
    kinds = [(g, ch) for g, ch in (("get_definitions", getattr(scope, "definitions", None)), ("get_ports", getattr(scope, "ports", None)),
                                   ("get_cables", getattr(scope, "cables", None)), ("get_instances", getattr(scope, "children", None)))
             if ch is not None and any(c.name for c in ch)]
    if not kinds:
        return None
    if stage == "ask":
        g, ch = rng.choice(kinds)
        x = rng.choice([c for c in ch if c.name])
        got = list(getattr(scope, g)(x.name))
        ctx.count("exact_queries_right_before_a_policy_change")
        if not any(y is x for y in got):
            return "lookup-misses-element", "%s(%r) on the orphan before the add does not return the element" % (g, x.name)
        return None
    g, ch = rng.choice(kinds)
    x = rng.choice([c for c in ch if c.name])
    old = x.name
    names = [c.name for c in ch if c.name]
    try:
        if rng.random() < 0.5:
            x.name = "renamed_after_add"
        else:
            {"get_definitions": lambda: scope.remove_definition(x), "get_ports": lambda: scope.remove_port(x),
             "get_cables": lambda: scope.remove_cable(x), "get_instances": lambda: scope.remove_child(x)}[g]()
    except ValueError:
        return None
    ctx.count("edits_right_after_a_policy_change")
    return lookup_scope(ctx, scope, values=names + ["renamed_after_add"] + [c["EDIF.identifier"] for c in ch if "EDIF.identifier" in c])


def cross_policy_case(ctx, i, rng, judge="C10"):
    """A subtree built as an ORPHAN under the DEFAULT policy (where any identifier is accepted) is added to an EDIF-policy
    parent: the add must be refused exactly when the subtree holds an illegal identifier or siblings whose identifiers are
    equal ignoring case, at ANY depth; an accepted add must leave every scope legal and unique."""
    sdn.namespace_manager.default = "EDIF"
    n = sdn.Netlist("n")
    host_lib = n.create_library("host")
    host_def = host_lib.create_definition("hostdef")
    sdn.namespace_manager.default = "DEFAULT"
    ids_pool = ["a", "A", "b", "x_1", "&9", "9a", "a-b", "_n", "bus[3]", "ok1", "Ok1", "q"]
    planted = rng.random() < 0.6
    depth_of_offence = rng.choice(["library", "definition", "child", "child", "child"]) if planted else None

    def ident(x, legal_only):
        pool = [v for v in ids_pool if LEGAL.match(v)] if legal_only else ids_pool
        x["EDIF.identifier"] = rng.choice(pool)

    lib = sdn.Library("orph_lib")
    ident(lib, depth_of_offence != "library")
    defs = []
    for k in range(rng.randint(1, 3)):
        d = lib.create_definition("d%d" % k)
        ident(d, depth_of_offence != "definition")
        defs.append(d)
        for j in range(rng.randint(0, 3)):
            x = rng.choice([lambda: d.create_port("p%d" % j, pins=1), lambda: d.create_cable("c%d" % j, wires=1),
                            lambda: d.create_child("i%d" % j, reference=defs[0])])()
            if rng.random() < 0.8:
                ident(x, depth_of_offence != "child")
    what = rng.choice(["library", "definition"])
    sub, parent = (lib, n) if what == "library" else (sdn.Definition("orph_def"), host_lib)
    if what == "definition":
        ident(sub, depth_of_offence != "definition")
        for j in range(rng.randint(1, 4)):
            x = rng.choice([lambda: sub.create_port("p%d" % j, pins=1), lambda: sub.create_cable("c%d" % j, wires=1),
                            lambda: sub.create_child("i%d" % j, reference=host_def)])()
            if rng.random() < 0.8:
                ident(x, depth_of_offence != "child")

    if depth_of_offence == "child" and rng.random() < 0.6:
        # a case twin: one more sibling of the same kind whose identifier differs only in letter case
        host = rng.choice(defs if what == "library" else [sub])
        kinds = []
        for kind, g in (("port", list(host.ports)), ("cable", list(host.cables)), ("child", list(host.children))):
            c = [x for x in g if "EDIF.identifier" in x and x["EDIF.identifier"].swapcase() != x["EDIF.identifier"]]
            if c:
                kinds.append((kind, c))
        if kinds:
            kind, c = rng.choice(kinds)
            twin_of = rng.choice(c)
            t = {"port": lambda: host.create_port("tw", pins=1), "cable": lambda: host.create_cable("tw", wires=1),
                 "child": lambda: host.create_child("tw", reference=twin_of.reference if kind == "child" else None)}[kind]()
            t["EDIF.identifier"] = twin_of["EDIF.identifier"].swapcase()
            ctx.count("cross_policy_case_twins:" + kind)

    def offences(root):
        out = []
        stack = [root]
        while stack:
            e = stack.pop()
            v = e.get("EDIF.identifier")
            if v is not None and not LEGAL.match(v):
                out.append("illegal %r on %s" % (v, type(e).__name__))
            groups = []
            if isinstance(e, sdn.Library):
                groups = [list(e.definitions)]
            elif isinstance(e, sdn.Definition):
                groups = [list(e.ports), list(e.cables), list(e.children)]
            for g in groups:
                low = [c["EDIF.identifier"].lower() for c in g if "EDIF.identifier" in c]
                if len(low) != len(set(low)):
                    out.append("case-insensitive duplicate among %d siblings of %s" % (len(g), type(e).__name__))
                stack += g
        return out
    off = offences(sub)
    # sibling conflicts with the host scope
    sibs = list(n.libraries) if what == "library" else list(host_lib.definitions)
    if any("EDIF.identifier" in s_ and "EDIF.identifier" in sub and s_["EDIF.identifier"].lower() == sub["EDIF.identifier"].lower() for s_ in sibs):
        off.append("identifier of the subtree root collides with a sibling in the host scope")
    ctx.count("cross_policy_adds")
    if judge == "C14":
        from .. import snapshot
        from ..universe import Universe
        U_ = Universe.of(sub)
        before_ = snapshot.snap(U_, tables=True)
    asked = None
    if judge == "C10" and rng.random() < 0.6:
        asked = rng.choice(defs + [lib]) if what == "library" else sub
        r = query_then_edit(ctx, asked, rng, "ask")
        if r:
            ctx.violation("cross-policy:%s" % r[0], r[1])
            return
    try:
        (n.add_library if what == "library" else host_lib.add_definition)(sub)
        accepted = True
    except ValueError:
        accepted = False
    except Exception as ex:  # noqa: BLE001
        ctx.violation("cross-policy-add-crashed:%s" % type(ex).__name__, "%r at %s" % (ex, probes.innermost_frame(ex)))
        return
    if judge == "C14":
        if not accepted:
            ctx.count("refusals_checked")
            d_ = snapshot.diff(before_, snapshot.snap(U_, tables=True))
            if d_ is not None:
                ctx.violation("refused-call-changed-state:cross-policy-add_%s:%s" % (what, d_[0][0]),
                              "add_%s of a DEFAULT-built orphan refused by the EDIF-policy parent, but fact %s of the ORPHAN changed from %r to %r" % (
                                  what, d_[0][0], d_[1], d_[2]))
        return
    ctx.count("naming_edits_judged")
    if accepted and off:
        ctx.violation("cross-policy-add-accepts-noncompliant-subtree", "add_%s of a DEFAULT-built orphan accepted under the EDIF policy although: %s" % (what, off[:3]))
        return
    if not accepted and not off:
        ctx.violation("cross-policy-add-false-refusal", "add_%s of a compliant DEFAULT-built orphan was refused under the EDIF policy" % what)
        return
    if accepted:
        if asked is not None:
            r = query_then_edit(ctx, asked, rng, "edit")
            if r:
                ctx.violation("cross-policy:%s:after-edit-below-retagged-scope" % r[0], r[1])
                return
        for P in [n] + list(n.libraries) + [d_ for l in n.libraries for d_ in l.definitions]:
            r = scan_scope(ctx, P) or lookup_scope(ctx, P)
            if r:
                ctx.violation("cross-policy:%s" % r[0], r[1])
                return
    ctx.fingerprint(("cross", what, tuple(off), accepted), True)


def leaf_adoption_case(ctx, i, rng):
    """A single port / cable / instance built stand-alone under the DEFAULT policy (any identifier goes) and added to an
    EDIF-policy definition: refused exactly when its identifier is ill-formed or equals a sibling's ignoring case."""
    sdn.namespace_manager.default = "EDIF"
    n = sdn.Netlist("n")
    lib = n.create_library("host")
    leafdef = lib.create_definition("leafdef")
    host = lib.create_definition("hostdef")
    sib = {"port": host.create_port("p_sib", pins=1), "cable": host.create_cable("c_sib", wires=1),
           "instance": host.create_child("i_sib", reference=leafdef)}
    for k_, x in sib.items():
        x["EDIF.identifier"] = "Sib_" + k_
    sdn.namespace_manager.default = "DEFAULT"
    try:
        kind = rng.choice(["port", "cable", "instance"])
        o = {"port": lambda: sdn.Port("orph"), "cable": lambda: sdn.Cable("orph"), "instance": lambda: sdn.Instance("orph")}[kind]()
        if kind == "instance":
            o.reference = leafdef
        v = rng.choice(["ok_1", "&9", "9a", "a-b", "a b", "_n", "", "sib_" + kind, "SIB_" + kind.upper(), "x" * 257, "fine"])
        if rng.random() < 0.85:
            o["EDIF.identifier"] = v
        else:
            v = None
        if rng.random() < 0.3:
            # ... or it lived in an EDIF definition before, was taken out and re-tagged
            o[".NS"] = "DEFAULT"
    finally:
        sdn.namespace_manager.default = "EDIF"
    must_refuse = v is not None and (not LEGAL.match(v) or v.lower() == ("sib_" + kind))
    ctx.count("cross_policy_adds")
    ctx.count("cross_policy_leaf_adds")
    ctx.count("naming_edits_judged")
    try:
        {"port": host.add_port, "cable": host.add_cable, "instance": host.add_child}[kind](o)
        accepted = True
    except ValueError:
        accepted = False
    except Exception as ex:  # noqa: BLE001
        ctx.violation("cross-policy-add-crashed:%s" % type(ex).__name__, "%r at %s" % (ex, probes.innermost_frame(ex)))
        return
    finally:
        sdn.namespace_manager.default = "DEFAULT"
    if accepted and must_refuse:
        ctx.violation("cross-policy-add-accepts-noncompliant-leaf", "add of a DEFAULT-built %s with EDIF.identifier %r accepted by an EDIF-policy definition" % (kind, v[:40]))
        return
    if not accepted and not must_refuse:
        ctx.violation("cross-policy-add-false-refusal", "add of a DEFAULT-built %s with EDIF.identifier %r was refused by an EDIF-policy definition" % (kind, v))
        return
    if accepted:
        r = scan_scope(ctx, host) or lookup_scope(ctx, host)
        if r:
            ctx.violation("cross-policy:%s" % r[0], r[1])
            return
    ctx.fingerprint(("cross-leaf", kind, v, accepted), True)


def to_default_case(ctx, i, rng, judge="C10"):
    """The other direction: a subtree built as an ORPHAN under the EDIF policy is added to a DEFAULT-policy parent.  Under the
    DEFAULT policy only exact name duplicates among siblings OF THE SAME KIND matter (ports, cables and instances of a
    definition are three scopes), so the add is refused exactly when the subtree's root collides with a host sibling; a
    refused add leaves the orphan (its data, its policy, its name tables) as it was (judge="C14")."""
    from .. import snapshot
    from ..universe import Universe
    sdn.namespace_manager.default = "DEFAULT"
    n = sdn.Netlist("n")
    host_lib = n.create_library("host")
    host_def = host_lib.create_definition("hostdef")
    host_lib.create_definition("x0")
    n.create_library("x1")
    sdn.namespace_manager.default = "EDIF"
    pool = ["x0", "x1", "q", "Q", "y"]
    what = rng.choice(["library", "definition"])
    try:
        if what == "library":
            sub = sdn.Library(rng.choice(pool))
            hosts = [sub.create_definition(nm) for nm in rng.sample(pool, rng.randint(1, 3))]
            parent = n
        else:
            sub = sdn.Definition(rng.choice(pool))
            hosts = [sub]
            parent = host_lib
        k = 0
        for d in hosts:
            for nm in rng.sample(pool, rng.randint(1, 4)):
                for mk in rng.sample([lambda: d.create_port(nm, pins=1), lambda: d.create_cable(nm, wires=1),
                                      lambda: d.create_child(nm, reference=host_def)], rng.randint(1, 3)):
                    try:
                        x = mk()
                        if rng.random() < 0.5:
                            x["EDIF.identifier"] = "id%d" % k
                        k += 1
                    except ValueError:
                        pass        # the EDIF policy of the orphan refused a case-variant sibling
    finally:
        sdn.namespace_manager.default = "DEFAULT"
    sibs = list(n.libraries) if what == "library" else list(host_lib.definitions)
    must_refuse = any(s_.name == sub.name for s_ in sibs)
    U = Universe.of(sub)
    before = snapshot.snap(U, tables=True)
    ctx.count("cross_policy_adds")
    ctx.count("cross_policy_adds_edif_to_default")
    asked = None
    if judge == "C10" and rng.random() < 0.6:
        asked = rng.choice(hosts + ([sub] if what == "library" else []))
        r = query_then_edit(ctx, asked, rng, "ask")
        if r:
            ctx.violation("cross-policy:%s" % r[0], r[1])
            return
    try:
        (n.add_library if what == "library" else host_lib.add_definition)(sub)
        accepted = True
    except ValueError:
        accepted = False
    except Exception as ex:  # noqa: BLE001
        ctx.violation("cross-policy-add-crashed:%s" % type(ex).__name__, "%r at %s" % (ex, probes.innermost_frame(ex)))
        return
    if judge == "C14":
        if not accepted:
            ctx.count("refusals_checked")
            d = snapshot.diff(before, snapshot.snap(U, tables=True))
            if d is not None:
                ctx.violation("refused-call-changed-state:cross-policy-add_%s:%s" % (what, d[0][0]),
                              "add_%s of an EDIF-built orphan refused by the DEFAULT-policy parent, but fact %s of the ORPHAN changed from %r to %r" % (
                                  what, d[0][0], d[1], d[2]))
        return
    ctx.count("naming_edits_judged")
    if accepted and must_refuse:
        ctx.violation("cross-policy-add-accepts-duplicate-name", "add_%s accepted under the DEFAULT policy although a sibling is named %r" % (what, sub.name))
        return
    if not accepted and not must_refuse:
        ctx.violation("cross-policy-add-false-refusal", "add_%s of an EDIF-built orphan was refused under the DEFAULT policy although no sibling of the "
                      "same kind shares a name (cables, ports and instances are separate scopes)" % what)
        return
    if accepted:
        if asked is not None:
            r = query_then_edit(ctx, asked, rng, "edit")
            if r:
                ctx.violation("cross-policy:%s:after-edit-below-retagged-scope" % r[0], r[1])
                return
        # the adopted scopes now live under the DEFAULT policy: identifiers are free-form there and may repeat, also ignoring
        # case - an identifier write that the EDIF policy would have refused is accepted
        for d in hosts:
            for sibs in (list(d.ports), list(d.cables), list(d.children)):
                have = [x for x in sibs if "EDIF.identifier" in x]
                if have and len(sibs) >= 2 and rng.random() < 0.6:
                    x = rng.choice(have)
                    y = rng.choice([z for z in sibs if z is not x])
                    v = rng.choice([x["EDIF.identifier"], x["EDIF.identifier"].swapcase(), "9 not-an-identifier"])
                    ctx.count("identifier_writes_after_adoption_by_default_policy")
                    try:
                        y["EDIF.identifier"] = v
                    except ValueError as ex:
                        ctx.violation("cross-policy-false-refusal:identifier-write-under-default-policy",
                                      "after an EDIF-built orphan was adopted by a DEFAULT-policy parent, EDIF.identifier = %r on a %s was refused (%s)" % (
                                          v, type(y).__name__, str(ex)[:80]))
                        return
        for P in [n] + list(n.libraries) + [d_ for l in n.libraries for d_ in l.definitions]:
            r = scan_scope(ctx, P) or lookup_scope(ctx, P)
            if r:
                ctx.violation("cross-policy:%s" % r[0], r[1])
                return
    ctx.fingerprint(("cross-to-default", what, must_refuse, accepted), True)


def run_case(ctx, i, rng):
    if i % 6 == 5:
        return reader_case(ctx, i, rng)
    if i % 6 == 4:
        try:
            for _ in range(8):
                cross_policy_case(ctx, i, rng)
            for _ in range(6):
                to_default_case(ctx, i, rng)
            for _ in range(8):
                leaf_adoption_case(ctx, i, rng)
            return
        finally:
            sdn.namespace_manager.default = "DEFAULT"
    policy = "EDIF" if i % 2 else "DEFAULT"
    sdn.namespace_manager.default = policy
    try:
        fences = [k for k in FENCE_KEYS if common.fenced(sys.modules[__name__], k)]
        eng = gen_ops.Engine(rng, "naming", policy, fences=[FENCE_KEYS[k] for k in fences])
        m = C10Monitor(ctx)
        gen_ops.run_history(eng, rng.randint(100, 220), [m])
        # the window closes (or opens): the process-wide default becomes the OTHER policy - the elements built so far keep theirs,
        # and an identifier write on them is judged by THEIR policy
        sdn.namespace_manager.default = "DEFAULT" if policy == "EDIF" else "EDIF"
        pool_ = [x for x in eng.u.libs + eng.u.defs + eng.u.ports + eng.u.cables + eng.u.insts if parent_of(x) is not None and policy_of(x) == policy]
        for x in rng.sample(pool_, min(len(pool_), 6)):
            v = rng.choice(["1bad", "c-1", "&", "u 0", "_x", "fresh_ok_%d" % rng.randrange(10 ** 6), "Fresh_%d" % rng.randrange(10 ** 6)])
            sibs_ = [y for y in siblings(parent_of(x), x) if y is not x]
            clash = any(isinstance(y.get("EDIF.identifier"), str) and y["EDIF.identifier"].lower() == v.lower() for y in sibs_)
            must_refuse = policy == "EDIF" and (not LEGAL.match(v) or clash)
            ctx.count("identifier_writes_after_the_default_policy_changed")
            try:
                x["EDIF.identifier"] = v
                refused = False
            except ValueError:
                refused = True
            if refused != must_refuse:
                ctx.violation("identifier-write-judged-by-the-default-policy:%s" % ("false-acceptance" if must_refuse else "false-refusal"),
                              "element built under %s, default policy now %s: EDIF.identifier = %r on a %s was %s" % (
                                  policy, sdn.namespace_manager.default, v, type(x).__name__, "refused" if refused else "accepted"))
                break
        ctx.fingerprint([(e[1], e[3]) for e in eng.log], m.refusals >= 5 and m.renames >= 10)
        if i < 2:
            ctx.sample({"policy": policy, "history_head": eng.log[:30]})
    finally:
        sdn.namespace_manager.default = "DEFAULT"


def probe_clone_namespace():
    from .c07 import probe_clone_namespace as p
    return p()


FENCE_KEYS = {"non-integer-position-fails-late": "bad_position"}
def probe_identifier_default():
    old = sdn.namespace_manager.default
    sdn.namespace_manager.default = "DEFAULT"
    try:
        n = sdn.Netlist("n")
        l = n.create_library("l")
        l["EDIF.identifier"] = "work"
        return list(sdn.get_libraries(n, "work", key="EDIF.identifier")) == [] and \
            len(list(sdn.get_libraries(n, "wor?", key="EDIF.identifier"))) == 1
    finally:
        sdn.namespace_manager.default = old


PROBES = {"non-integer-position-fails-late": lambda: gen_ops.probe_bad_position("name"),
          "clone-not-registered-in-namespace": probe_clone_namespace,
          "identifier-lookup-under-default-policy": probe_identifier_default}
