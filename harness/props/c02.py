"""C02 - instances mirror their definition: reference sets and outer pins track all edits.

Monitor: invariant hook I6-I8 (wf.check_c02) after every outermost mutator exit, plus transition monitors:
I8  every outer pin stored before the call and not stored after it is off its wire (and no wire lists it) and no longer
    names the instance that dropped it;
I9  an accepted re-point to a shape-compatible definition keeps every connection on the corresponding pin."""
from .. import common

common.setup_env()
import sys
import spydrnet as sdn  # noqa: E402

from .. import probes, wf, gen_ops  # noqa: E402
from .c01 import C01Monitor  # noqa: E402

PROP = "C02"
LEVEL = "exploration"
RULE = ("case = one random history of 60-200 calls, 'mirror' profile: few definitions with many instances (children, "
        "top instances, orphans), op mix biased to port/pin add/remove on instanced definitions, reference "
        "changes (None/same/compatible/incompatible), child remove/re-add, instance/definition clones; distinct = "
        "(op,outcome) sequence hash; non-trivial = >=10 port/pin edits on a definition that had >=1 instance at "
        "that time and >=3 accepted reference changes. I6-I8 evaluated after every call; I9 on every accepted re-point.")
ASSUMPTIONS = ["pin-map order is not checked (statement: exactly one outer pin per inner pin)",
               "oracle uses only the public read API"]
REQUIRED = {"invariant_evals": 1000, "edits_on_instanced": 200, "repoint_checked": 30, "dropped_pins_checked": 100}
BADPOS = "non-integer-position-fails-late"
PROBES = {BADPOS: lambda: gen_ops.probe_bad_position("name")}


def plan(tier):
    if tier == "thorough":
        return {"cases": 16 * 900, "shards": 16, "shard_budget_s": 1500, "watchdog_s": 2400}
    return {"cases": 360, "shards": 4, "shard_budget_s": 200, "watchdog_s": 600}


class C02Monitor(C01Monitor):
    def __init__(self, ctx):
        super().__init__(ctx, check=wf.check_c02)
        self.stored = None
        self.repoint = None
        self.nontrivial_edits = 0
        self.repoints = 0

    def pre(self, eng, op):
        self.before = None
        self.stored = [(op_, op_.wire) for i in eng.u.insts for op_ in i.pins]
        self.repoint = None
        if op.label in ("Definition.create_port", "Definition.add_port", "Definition.remove_port",
                        "Definition.remove_ports_from"):
            if len(op.subject.references) > 0:
                self.ctx.count("edits_on_instanced")
                self.nontrivial_edits += 1
        if op.label in ("Port.create_pin", "Port.create_pins", "Port.add_pin", "Port.remove_pin", "Port.remove_pins_from"):
            d = op.subject.definition
            if d is not None and len(d.references) > 0:
                self.ctx.count("edits_on_instanced")
                self.nontrivial_edits += 1
        if op.label == "Instance.reference=":
            i = op.subject
            cur, new = i.reference, op.args[0]
            if cur is not None and new is not None:
                self.repoint = (i, [[i.pins[ip].wire for ip in p.pins] if all(ip in i.pins for ip in p.pins) else None
                                    for p in cur.ports])

    def post(self, eng, op, outcome, exc, result):
        ctx = self.ctx
        now = set(id(op_) for i in eng.u.insts for op_ in i.pins)
        for op_, w in self.stored:
            if id(op_) not in now:
                ctx.count("dropped_pins_checked")
                if op_.wire is not None:
                    ctx.violation("I8-dropped-pin-keeps-wire@%s" % op.label, "outer pin dropped by %s still reports a wire; log=%s" % (op.desc, eng.log[-8:]))
                    return True
                if w is not None and any(q is op_ for q in w.pins):
                    ctx.violation("I8-dropped-pin-still-listed@%s" % op.label, "outer pin dropped by %s still listed by its wire; log=%s" % (op.desc, eng.log[-8:]))
                    return True
                # ... and, like every removed element, it no longer names a parent: an outer pin that its instance does not
                # hold any more must not go on naming that instance (a caller's handle would still look live)
                inst_ = op_.instance
                if inst_ is not None and op_.inner_pin is not None and not any(q is op_ for q in inst_.pins):
                    ctx.violation("I8-dropped-pin-names-instance@%s" % op.label, "outer pin dropped by %s still names its instance and inner pin; log=%s" % (op.desc, eng.log[-8:]))
                    return True
        if self.repoint is not None and outcome == "ok":
            i, before = self.repoint
            new = i.reference
            self.repoints += 1
            ctx.count("repoint_checked")
            for pi, port in enumerate(new.ports):
                if before[pi] is None:
                    continue
                for bi, ip in enumerate(port.pins):
                    op_ = i.pins.get(ip)
                    if op_ is None or bi >= len(before[pi]):
                        ctx.violation("I9-repoint-lost-pin", "after reference=(%s) pin (%d,%d) has no outer pin; log=%s" % (op.strat, pi, bi, eng.log[-8:]))
                        return True
                    if op_.wire is not before[pi][bi]:
                        ctx.violation("I9-repoint-moved-connection", "after reference=(%s) pin (%d,%d) is on another wire; log=%s" % (op.strat, pi, bi, eng.log[-8:]))
                        return True
        return super().post(eng, op, outcome, exc, result)


def run_case(ctx, i, rng):
    if i == 0 and ctx.tier == "thorough":
        # one more workload: the repository's own test suite under the same invariant monitor (harness/suite_monitor.py)
        import signal
        from .. import suite_run
        suite_run.suite_case(ctx, "c02")
        signal.alarm(300)
    policy = "EDIF" if i % 4 == 3 else "DEFAULT"
    sdn.namespace_manager.default = policy
    try:
        eng = gen_ops.Engine(rng, "mirror", policy, fences=tuple(FENCES) + (("bad_position",) if common.fenced(sys.modules[__name__], BADPOS) else ()))
        m = C02Monitor(ctx)
        gen_ops.run_history(eng, rng.randint(60, 200), [m])
        ctx.fingerprint([(e[1], e[3]) for e in eng.log], m.nontrivial_edits >= 10 and m.repoints >= 3)
        if i < 2:
            ctx.sample({"policy": policy, "history_head": eng.log[:25], "instances": len(eng.u.insts),
                        "definitions": len(eng.u.defs)})
    finally:
        sdn.namespace_manager.default = "DEFAULT"


FENCES = ()
