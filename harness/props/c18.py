"""C18 - EBLIF files are read faithfully and survive write-then-read.

Monitor: reader vs abstract model + round trip.  Random abstract flat designs (emodel.py) rendered by an independent
EBLIF writer (bus-indexed and scalar nets, unconn actuals, omitted formals, line continuations, comments, .names with
covers, .latch short and full form, .conn, declared and undeclared black boxes, .cname/.attr/.param); the parsed
netlist must show one instance per statement with the named model as definition, EBLIF.type, the attached data, model
ports with direction, every formal=actual on the named net bit (nets compared as SETS OF PINS, .conn merging two
nets), black boxes as leaf primitives in hdi_primitives, and be well-formed/self-contained; compose -> parse must
give the same instances/types/data/nets.  Bundled .eblif files: round trip + self-containedness."""
import os
import sys
import glob
import shutil
import tempfile

from .. import budget, common

common.setup_env()
import spydrnet as sdn  # noqa: E402
from spydrnet.ir.outerpin import OuterPin as BaseOuterPin  # noqa: E402

from .. import emodel, wf, canon, probes  # noqa: E402

PROP = "C18"
LEVEL = "exploration"
RULE = ("case = one random abstract flat design rendered to EBLIF with a random feature subset -> sdn.parse -> comparison with "
        "the model -> compose (write_eblif_cname on/off, write_blackbox on/off) -> parse -> comparison with the first parse; "
        "every 10th case a bundled .eblif file (round trip only); distinct = text hash; non-trivial = >=3 statements of >=2 "
        "kinds and a bus-indexed net or a .conn")
ASSUMPTIONS = ["every net bit has at most one driver and .cname values are unique (the reader names instances after the net they "
               "drive); .subckt/.gate statements always carry a .cname here (instance identity)",
               ".conn is used between scalar nets only", "top-level bus ports are dense (bits 0..k all declared)",
               "the reader represents .latch type / init-val tokens as single-bit nets of that name (compared as such)"]
REQUIRED = {"texts_parsed": 150, "instances_compared": 800, "pins_compared": 3000, "round_trips": 120}
FEATURES = ["cname", "attr", "param", "names", "latch", "conn", "undeclared", "bus", "consts"]


def plan(tier):
    if tier == "thorough":
        return {"cases": 16 * 800, "shards": 16, "shard_budget_s": 1800, "watchdog_s": 2700}
    return {"cases": 240, "shards": 4, "shard_budget_s": 240, "watchdog_s": 600}


def netlist_view(n, ctx=None):
    """instances {name: (model, type, data)}, nets: set of frozenset(pin keys), ports of the top, primitives."""
    top = n.top_instance.reference
    insts = {}
    for i in top.children:
        data = {k: i[k] for k in i if k.startswith("EBLIF.") or k == "unconn"}
        insts[i.name] = (i.reference.name, data)
    nets = set()
    for c in top.cables:
        for w in c.wires:
            g = set()
            for p in w.pins:
                if ctx is not None:
                    ctx.count("pins_compared")
                if isinstance(p, BaseOuterPin):
                    ip = p.inner_pin
                    g.add((p.instance.name, ip.port.name, list(ip.port.pins).index(ip)))
                else:
                    g.add((None, p.port.name, list(p.port.pins).index(p)))
            if g:
                nets.add(frozenset(g))
    ports = {p.name: (p.direction.name, len(p.pins)) for p in top.ports}
    prims = {}
    for l in n.libraries:
        for d in l.definitions:
            if d is not top:
                prims[d.name] = (l.name, {p.name: (p.direction.name, len(p.pins)) for p in d.ports}, len(d.cables), len(d.children))
    return {"top": top.name, "insts": insts, "nets": nets, "ports": ports, "prims": prims}


def compare_with_model(ctx, design, n):
    errs = wf.self_contained(n, strict_refsets=True)
    if errs:
        return "reader-output-ill-formed:%s" % errs[0][0], errs[0][1]
    v = netlist_view(n, ctx)
    if v["top"] != design["top"]:
        return "wrong-top", "top model %s, expected %s" % (v["top"], design["top"])
    exp = emodel.expected(design)
    names = {}
    for order, e in exp.items():
        ctx.count("instances_compared")
        nm = e["name"]
        names[order] = nm
        if nm not in v["insts"]:
            return "instance-missing", "no instance named %r (model %s); have %s" % (nm, e["model"], sorted(v["insts"])[:6])
        model, data = v["insts"][nm]
        if model != e["model"]:
            return "instance-wrong-model", "%r is an instance of %s, expected %s" % (nm, model, e["model"])
        if data.get("EBLIF.type") != e["type"]:
            return "instance-wrong-type", "%r has EBLIF.type %r, expected %r" % (nm, data.get("EBLIF.type"), e["type"])
        want = {"EBLIF.type": e["type"]}
        if e["cname"]:
            want["EBLIF.cname"] = e["cname"]
        if e["attr"]:
            want["EBLIF.attr"] = e["attr"]
        if e["param"]:
            want["EBLIF.param"] = e["param"]
        if e["unconn"]:
            want["unconn"] = e["unconn"]
        if e["type"] == "EBLIF.names":
            want["EBLIF.output_covers"] = e["covers"]
        dd = canon.first_diff(want, data)
        if dd:
            return "instance-data-differs", "%r: %s" % (nm, dd)
    if len(v["insts"]) != len(exp):
        return "instance-count", "%d instances, %d statements" % (len(v["insts"]), len(exp))
    want_nets = emodel.expected_nets(design, names)
    if want_nets != v["nets"]:
        a, b = want_nets - v["nets"], v["nets"] - want_nets
        return "nets-differ", "%d expected pin sets missing, %d unexpected; e.g. missing %s / unexpected %s" % (
            len(a), len(b), _srt(a), _srt(b))
    # top ports
    want_ports = {}
    for nb, d in [(x, "IN") for x in design["inputs"]] + [(x, "OUT") for x in design["outputs"]]:
        cur = want_ports.get(nb[0])
        w = (nb[1] or 0) + 1
        if cur is None:
            want_ports[nb[0]] = (d, w)
        else:
            want_ports[nb[0]] = (cur[0] if cur[0] == d else "INOUT", max(cur[1], w))
    if want_ports != v["ports"]:
        return "top-ports-differ", canon.first_diff(want_ports, v["ports"])
    # black boxes
    used = set(it["model"] for it in design["items"])
    for m in design["models"]:
        if m["name"] not in used and not m["declared"]:
            continue
        if m["name"] not in v["prims"]:
            return "blackbox-missing", m["name"]
        lib, ports, ncables, nchildren = v["prims"][m["name"]]
        if lib != "hdi_primitives" or ncables or nchildren:
            return "blackbox-not-leaf-primitive", "%s in %s with %d cables %d children" % (m["name"], lib, ncables, nchildren)
        if m["declared"]:
            wp = {p: ("IN", w) for p, w in m["inputs"]}
            wp.update({p: ("OUT", w) for p, w in m["outputs"]})
            if wp != ports:
                return "blackbox-ports-differ", "%s: %s" % (m["name"], canon.first_diff(wp, ports))
        else:
            # not declared: the ports are those the instances name, each as wide as the highest formal bit used - a formal
            # whose actual is unconn is a pin like any other (present, unconnected)
            ww, gaps = {}, set()
            for it in design["items"]:
                if it["model"] == m["name"] and it["kind"] in ("subckt", "gate"):
                    named = {}
                    for (pn, ix, _) in it["pins"]:
                        ww[pn] = max(ww.get(pn, 0), (ix or 0) + 1)
                        named.setdefault(pn, set()).add(ix or 0)
                    for pn, bits in named.items():
                        if bits != set(range(max(bits) + 1)):
                            gaps.add(pn)        # a statement that names bit k of a formal but not every bit below it: width not judged
            got = {p: w for p, (_, w) in ports.items() if p not in gaps}
            ww = {p: w for p, w in ww.items() if p not in gaps}
            ctx.count("undeclared_blackbox_port_widths_compared", len(ww))
            if ww != got:
                return "undeclared-blackbox-ports-differ", "%s: %s" % (m["name"], canon.first_diff(ww, got))
    return None


def _srt(sets):
    return sorted((sorted(x, key=repr) for x in sets), key=repr)[:1]


def _payload(data):
    return repr(sorted((k, v) for k, v in data.items() if k not in ("unconn", "EBLIF.cname")))


def compare_roundtrip(a, b, write_cname):
    if a["top"] != b["top"]:
        return "top", "%s vs %s" % (a["top"], b["top"])
    if not write_cname:
        # documented option: instance names are not written; identity is lost, compare what remains
        import collections
        ma = collections.Counter((m, _payload(d)) for m, d in a["insts"].values())
        mb = collections.Counter((m, _payload(d)) for m, d in b["insts"].values())
        if ma != mb:
            return "instance-multiset", "instances (model, type, attr, param, covers) differ: %s" % list((ma - mb).items())[:2]
        if sorted(len(x) for x in a["nets"]) != sorted(len(x) for x in b["nets"]):
            return "net-sizes", "multiset of net sizes differs"
        return None
    if set(a["insts"]) != set(b["insts"]):
        return "instance-names", "only before %s, only after %s" % (sorted(set(a["insts"]) - set(b["insts"]))[:3], sorted(set(b["insts"]) - set(a["insts"]))[:3])
    for nm, (model, data) in a["insts"].items():
        m2, d2 = b["insts"][nm]
        if model != m2:
            return "instance-model", "%r: %s vs %s" % (nm, model, m2)
        d1 = {k: v for k, v in data.items() if k != "unconn"}
        d2 = {k: v for k, v in d2.items() if k != "unconn"}
        if write_cname and "EBLIF.cname" not in d1 and d2.get("EBLIF.cname") == nm:
            d2.pop("EBLIF.cname")      # documented option: every instance name is written as .cname
        dd = canon.first_diff(d1, d2)
        if dd:
            return "instance-data", "%r: %s" % (nm, dd)
    if a["nets"] != b["nets"]:
        x, y = a["nets"] - b["nets"], b["nets"] - a["nets"]
        return "nets", "%d pin sets only before, %d only after; e.g. %s / %s" % (len(x), len(y), _srt(x), _srt(y))
    if a["ports"] != b["ports"]:
        return "top-ports", canon.first_diff(a["ports"], b["ports"])
    return None


def run_case(ctx, i, rng):
    me = sys.modules[__name__]
    d = tempfile.mkdtemp(prefix="c18_")
    try:
        if i % 10 == 9:
            fs = sorted(glob.glob(os.path.join(common.REPO, "example_netlists", "eblif_netlists", "*.eblif.zip")))
            src = fs[rng.randrange(len(fs))]
            n = sdn.parse(src)
            what = os.path.basename(src)
            design = None
        else:
            feats = [x for x in FEATURES if rng.random() < 0.7]
            if "undeclared" in feats and common.fenced(me, "eblif-blackbox-not-self-contained") is False:
                pass
            design = emodel.gen_design(rng, feats)
            text = emodel.write(design, rng, style=(i % 5 != 0))
            src = os.path.join(d, "s.eblif")
            with open(src, "w") as fh:
                fh.write(text)
            src = common.input_variant(src, rng)       # (.eblif / .blif, any letter case, or a single-file zip archive)
            ctx.count("input_name:" + os.path.splitext(src)[1].lower())
            what = "generated %s" % feats
            try:
                # (generated texts are small: a few thousand function entries; two million without returning is a reader that loops)
                with budget.StepBudget(2_000_000):
                    n = sdn.parse(src)
            except budget.StepBudgetExceeded:
                ctx.violation("reader-does-not-terminate", "more than 2,000,000 function entries without returning | %s" % what, {"text": text[:5000]})
                return
            except Exception as ex:  # noqa: BLE001
                fr = probes.innermost_frame(ex) or ""
                ctx.violation("reader-rejects-supported-text:%s:%s" % (type(ex).__name__, fr.split(":")[-1]),
                              "%s at %s | %s" % (str(ex)[:160], fr, what), {"text": text[:5000]})
                return
            ctx.count("texts_parsed")
            r = compare_with_model(ctx, design, n)
            if r:
                ctx.violation("reader-differs-from-model:" + r[0], "%s | %s" % (r[1], what), {"text": text[:5000]})
                return
        if design is None:
            ctx.count("texts_parsed")
            ctx.count("bundled_files")
            errs = wf.self_contained(n, strict_refsets=True)
            if errs:
                ctx.violation("bundled:reader-output-ill-formed:%s" % errs[0][0], "%s: %s" % (what, errs[0][1]))
                return
        if design is not None and emodel.conn_below_top_bit(design) and common.fenced(me, "eblif-conn-on-bus-bit-renumbers-bus"):
            ctx.count("fenced:no-round-trip-after-conn-below-top-bit")     # the reader's result was still judged against the model
            ctx.fingerprint(text, True)
            return
        a = netlist_view(n)
        opts = {"write_eblif_cname": rng.random() < 0.85, "write_blackbox": rng.random() < 0.8}
        f = os.path.join(d, "o.eblif")
        try:
            sdn.compose(n, f, **opts)
            with budget.StepBudget(20_000_000 if design is None else 2_000_000):
                n2 = sdn.parse(f)
        except budget.StepBudgetExceeded:
            ctx.violation("roundtrip-reader-does-not-terminate", "re-reading the written file took more function entries than any file of this size needs "
                          "| %s opts=%s" % (what, opts), {"written": open(f).read()[:5000]})
            return
        except Exception as ex:  # noqa: BLE001
            fr = probes.innermost_frame(ex) or ""
            if isinstance(ex, ValueError) and "naming conflict" in str(ex) and not opts["write_eblif_cname"]:
                ctx.count("roundtrip_without_cname_naming_conflict")    # names by convention collide: legitimate refusal
                return
            ctx.violation("roundtrip-raised:%s:%s" % (type(ex).__name__, fr.split(":")[-1]), "%s at %s | %s opts=%s" % (str(ex)[:160], fr, what, opts))
            return
        ctx.count("round_trips")
        r = compare_roundtrip(a, netlist_view(n2), opts["write_eblif_cname"])
        if r:
            ctx.violation("roundtrip-differs:%s" % r[0], "%s | %s opts=%s" % (r[1], what, opts), {"written": open(f).read()[:5000]})
            return
        if design is not None:
            kinds = set(it["kind"] for it in design["items"])
            bus = any(nb is not None and nb[1] is not None for it in design["items"] for (_, _, nb) in it["pins"])
            ctx.fingerprint(text, len(design["items"]) >= 3 and len(kinds) >= 2 and (bus or design["conns"]))
            if i < 2:
                ctx.sample({"features": feats, "text_head": text[:700]})
        else:
            ctx.fingerprint(("bundled", what), True)
    finally:
        shutil.rmtree(d, ignore_errors=True)


def probe_conn_bus_bit():
    """.conn on a middle bus bit: the written file cannot be read back (bus renumbered, instance names collide)."""
    d = tempfile.mkdtemp(prefix="c18p_")
    try:
        f = os.path.join(d, "p.eblif")
        with open(f, "w") as fh:
            fh.write(".model top\n.inputs a\n.outputs q[0] q[1] q[2] s\n.names a q[0]\n1 1\n.names a q[1]\n1 1\n.names a q[2]\n1 1\n"
                     ".names a s\n1 1\n.conn q[1] s\n.end\n")
        n = sdn.parse(f)
        g = os.path.join(d, "o.eblif")
        sdn.compose(n, g)
        try:
            sdn.parse(g)
        except ValueError:
            return True
        return False
    finally:
        shutil.rmtree(d, ignore_errors=True)


PROBES = {"eblif-conn-on-bus-bit-renumbers-bus": probe_conn_bus_bit}
