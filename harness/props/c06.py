"""C06 - the Verilog reader builds exactly the design the source describes.

Monitor: reader vs abstract model.  Random abstract designs (vmodel.py) are rendered to structural Verilog by an
independent writer (module order shuffled, header-only or ANSI ports, arbitrary wire ranges, part-selects,
concatenations, constants, empty and omitted connections, named and positional maps, forward references, declared
`celldefine primitives and never-declared black boxes, escaped identifiers, parameters, attributes, assigns,
comments); the parsed netlist must show, per module, the declared ports (direction, width, base), one cable per net,
and bit k (from the LSB end) of every connection expression on bit k of the instance port; assigns as a multiset of
joined bit pairs; parameters/attributes as documented; the single root as top; well-formed and self-contained.
Bundled .v files: reduced oracle (self-containedness, single root => top, regex inventory of module names)."""
import os
import re
import sys
import glob
import shutil
import tempfile
import zipfile

from .. import common

common.setup_env()
import spydrnet as sdn  # noqa: E402
from spydrnet.ir.outerpin import OuterPin as BaseOuterPin  # noqa: E402

from .. import vmodel, wf, canon, probes  # noqa: E402

PROP = "C06"
LEVEL = "exploration"
RULE = ("case = one random abstract Verilog design (1-3 primitives, 1-5 modules, single root) rendered with a random feature "
        "subset of {shuffle, consts, undeclared, positional, escaped, params, attrs, assigns, comments} -> sdn.parse -> "
        "comparison with the model; every 10th case a bundled .v file under the reduced oracle; distinct = text hash; "
        "non-trivial = >=1 concatenation or part-select narrower than its port and >=1 forward reference or undeclared primitive")
ASSUMPTIONS = ["module ports are based at 0 and downto (quantifier)",
               "bundled .v files have no independent Verilog reader: reduced oracle, stated in the evidence"]
REQUIRED = {"texts_parsed": 150, "connection_bits_compared": 5000, "modules_compared": 400}
ALL_FEATURES = ["shuffle", "consts", "undeclared", "positional", "escaped", "params", "attrs", "assigns", "comments", "grouped", "defparam"]
DIRS = {"IN": "input", "OUT": "output", "INOUT": "inout", "UNDEFINED": None}


def plan(tier):
    if tier == "thorough":
        return {"cases": 16 * 800, "shards": 16, "shard_budget_s": 1800, "watchdog_s": 2700, "case_timeout_s": 300}
    return {"cases": 400, "shards": 4, "shard_budget_s": 240, "watchdog_s": 600}


def vname(nm):
    """model name -> name as the reader stores it (escaped identifiers keep the backslash, lose the blank)."""
    return nm[:-1] if nm.startswith("\\") and nm.endswith(" ") else nm


def from_netlist(n, ctx=None):
    out = {}
    for l in n.libraries:
        if l.name == "SDN_VERILOG_ASSIGNMENT":
            continue
        for d in l.definitions:
            conn = {}
            asg = {}
            portconn = {}
            for c in d.cables:
                for wi, w in enumerate(c.wires):
                    for p in w.pins:
                        if not isinstance(p, BaseOuterPin):
                            portconn[(p.port.name, p.port.lower_index + list(p.port.pins).index(p))] = (c.name, c.lower_index + wi)
                        if isinstance(p, BaseOuterPin):
                            ip = p.inner_pin
                            k = list(ip.port.pins).index(ip)
                            if p.instance.reference.library is not None and p.instance.reference.library.name == "SDN_VERILOG_ASSIGNMENT":
                                asg.setdefault(p.instance.name, {}).setdefault(k, {})[ip.port.name] = (c.name, c.lower_index + wi)
                            else:
                                conn[(p.instance.name, ip.port.name, k)] = (c.name, c.lower_index + wi)
                                if ctx is not None:
                                    ctx.count("connection_bits_compared")
            assigns = []
            for nm, bits in asg.items():
                pairs = tuple(sorted((b.get("o"), b.get("i")) for b in bits.values()))
                assigns.append((len(bits), pairs))
            out[d.name] = {
                "lib": l.name,
                "ports": {p.name: (DIRS[p.direction.name], len(p.pins), p.lower_index) for p in d.ports},
                "port_order": [p.name for p in d.ports],
                "nets": {c.name: (len(c.wires), c.lower_index) for c in d.cables},
                "conn": conn, "portconn": portconn, "assigns": sorted(assigns),
                "insts": {i.name: (i.reference.name, dict(i.get("VERILOG.Parameters", {}) or {}), dict(i.get("VERILOG.InlineConstraints", {}) or {}))
                          for i in d.children if not (i.reference.library is not None and i.reference.library.name == "SDN_VERILOG_ASSIGNMENT")},
                "params": dict(d.get("VERILOG.Parameters", {}) or {}), "attrs": dict(d.get("VERILOG.InlineConstraints", {}) or {}),
                "primitive": bool(d.get("VERILOG.primitive", False)),
            }
    return out


def model_expected(mods):
    exp = vmodel.expected(mods)
    out = {}
    for mn, e in exp.items():
        out[mn] = {
            "ports": {vname(n): (d, w, b) for n, d, w, b in e["ports"]},
            "nets": {vname(k): v for k, v in e["nets"].items()},
            "conn": {(vname(i), vname(p), k): (vname(nb[0]), nb[1]) for (i, p, k), nb in e["conn"].items()},
            "portconn": {(vname(p), k): (vname(c), j) for (p, k), (c, j) in e["portconn"].items()},
            "assigns": sorted((w, tuple(sorted(((vname(a[0]), a[1]), (vname(b[0]), b[1])) for a, b in pairs))) for w, pairs in e["assigns"]),
            "insts": {vname(k): v for k, v in e["insts"].items()},
            "params": e["params"], "attrs": e["attrs"],
        }
    return out


def compare(ctx, mods, n, text):
    errs = wf.self_contained(n, strict_refsets=True)
    if errs:
        return "reader-output-ill-formed:%s" % errs[0][0], errs[0][1]
    got = from_netlist(n, ctx)
    exp = model_expected(mods)
    byname = {m.name: m for m in mods}
    for mn, e in exp.items():
        ctx.count("modules_compared")
        if mn not in got:
            return "module-missing", "module %s not in the netlist" % mn
        g = got[mn]
        for part in ("ports", "conn", "portconn", "nets", "assigns", "insts", "params", "attrs"):
            dd = canon.first_diff(e[part], g[part])
            if dd:
                return "reader-differs-from-model:%s" % part, "module %s %s %s" % (mn, part, dd)
    # primitives
    for m in mods:
        if not m.prim:
            continue
        used = any(i.ref == m.name for mm in mods for i in mm.insts)
        pname = m.name.strip()      # a module is known without the blank that ends an escaped identifier
        if pname not in got:
            if used or m.declared:
                return "primitive-missing", "primitive %r not in the netlist (definitions: %s)" % (pname, sorted(got)[:8])
            continue
        g = got[pname]
        if not m.declared:
            if g["lib"] != "hdi_primitives" or not g["primitive"]:
                return "undeclared-primitive-not-marked", "%s is in %s, VERILOG.primitive=%s" % (m.name, g["lib"], g["primitive"])
        else:
            want = {vname(nm): (d, w, 0) for nm, d, w in m.ports}
            if g["ports"] != want:
                return "reader-differs-from-model:primitive-ports", "primitive %s ports %s, expected %s" % (m.name, g["ports"], want)
            ctx.count("primitive_attributes_compared")
            if g["attrs"] != dict(m.attrs):
                return "reader-differs-from-model:primitive-attrs", "primitive %s attributes %s, expected %s" % (m.name, g["attrs"], dict(m.attrs))
    # ... and no module carries attributes that were written in front of ANOTHER module
    for mn, g in got.items():
        if mn not in exp and not any(m.name.strip() == mn for m in mods) and g.get("attrs"):
            return "reader-differs-from-model:stray-attrs", "definition %s carries attributes %s" % (mn, g["attrs"])
    for m in mods:
        if False:
            pass
    # top = the single root
    root = mods[-1].name
    t = n.top_instance
    if t is None or t.reference is None or t.reference.name != root:
        return "wrong-top", "top is %s, the single root module is %s" % (t.reference.name if t is not None and t.reference is not None else None, root)
    return None


def reduced_bundled(ctx, f):
    with zipfile.ZipFile(f) as z:
        text = z.read(z.namelist()[0]).decode(errors="replace")
    n = sdn.parse(f)
    ctx.count("texts_parsed")
    ctx.count("bundled_files")
    errs = wf.self_contained(n, strict_refsets=True)
    if errs:
        return "bundled:reader-output-ill-formed:%s" % errs[0][0], "%s: %s" % (os.path.basename(f), errs[0][1])
    text_nc = re.sub(r"/\*.*?\*/", " ", re.sub(r"//[^\n]*", " ", text), flags=re.S)
    text_nc = re.sub(r"\(\*.*?\*\)", " ", text_nc, flags=re.S)
    declared = re.findall(r"^\s*module\s+(\\\S+|[A-Za-z_][\w$]*)", text_nc, flags=re.M)
    have = set(d.name for l in n.libraries for d in l.definitions)
    missing = [m for m in declared if m not in have]
    if missing:
        return "bundled:declared-module-missing", "%s: %s" % (os.path.basename(f), missing[:3])
    insts = set()
    refs = set()
    for l in n.libraries:
        for d in l.definitions:
            for c in d.children:
                refs.add(c.reference.name)
    roots = [m for m in declared if m not in refs]
    if len(roots) == 1:
        t = n.top_instance
        if t is None or t.reference.name != roots[0]:
            return "bundled:wrong-top", "%s: top %s, single root %s" % (os.path.basename(f), t.reference.name if t else None, roots[0])
    return None


def chain_orders_case(ctx, i, rng, d):
    """Finite enumeration: EVERY declaration order of a 4- or 5-level module chain (plus a leaf) must elect the root."""
    import itertools
    depth = rng.choice([4, 4, 5])
    names = ["lvl%d" % k for k in range(depth)]       # lvl0 is the root, lvl<depth-1> the leaf
    body = {}
    for k, nm in enumerate(names):
        if k == depth - 1:
            body[nm] = "module %s(a, y);\n  input a; output y;\n  PRIMX p(.i(a), .o(y));\nendmodule\n" % nm
        else:
            extra = "  %s second(.a(y), .y());\n" % names[k + 1] if rng.random() < 0.4 else ""
            body[nm] = "module %s(a, y);\n  input a; output y;\n  %s inst(.a(a), .y(y));\n%sendmodule\n" % (nm, names[k + 1], extra)
    orders = list(itertools.permutations(names))
    if len(orders) > 24 and ctx.tier == "quick":
        orders = rng.sample(orders, 40)
    f = os.path.join(d, "chain.v")
    for order in orders:
        with open(f, "w") as fh:
            fh.write("\n".join(body[nm] for nm in order))
        ctx.count("chain_orders_parsed")
        try:
            n = sdn.parse(f)
        except Exception as ex:  # noqa: BLE001
            ctx.violation("reader-rejects-supported-text:%s:chain" % type(ex).__name__, "%r for module order %s" % (ex, order))
            return
        t = n.top_instance
        if t is None or t.reference is None or t.reference.name != "lvl0":
            ctx.violation("wrong-top", "module order %s: top is %s, the single root is lvl0" % (
                list(order), t.reference.name if t is not None and t.reference is not None else None))
            return
        errs = wf.self_contained(n, strict_refsets=True)
        if errs:
            ctx.violation("reader-output-ill-formed:%s" % errs[0][0], "%s for module order %s" % (errs[0][1], order))
            return
    ctx.count("texts_parsed", len(orders))
    ctx.fingerprint(("chain", depth, tuple(sorted(body.items()))), True)


def run_case(ctx, i, rng):
    me = sys.modules[__name__]
    d = tempfile.mkdtemp(prefix="c06_")
    try:
        if i % 10 == 9:
            fs = sorted(glob.glob(os.path.join(common.REPO, "example_netlists", "verilog_netlists", "*.v.zip")))
            fs = [f for f in fs if 0 < os.path.getsize(f) <= (9000 if ctx.tier == "quick" else 45000)]
            f = fs[rng.randrange(len(fs))]
            r = reduced_bundled(ctx, f)
            if r:
                ctx.violation(r[0], r[1])
            ctx.fingerprint(("bundled", os.path.basename(f)), True)
            return
        if i % 12 == 5:
            return chain_orders_case(ctx, i, rng, d)
        feats = [x for x in ALL_FEATURES if rng.random() < 0.55]
        for key, feat in FENCE_FEATURES.items():
            if feat in feats and common.fenced(me, key):
                feats.remove(feat)
                ctx.count("fenced:%s" % feat)
        if "positional" in feats and "shuffle" in feats and common.fenced(me, "positional-map-before-declaration"):
            feats.remove("shuffle")         # positional maps only on modules declared earlier in the file
            ctx.count("fenced:positional-with-forward-reference")
        mods = vmodel.gen_design(rng, feats)
        if i % 3 == 1:
            feats.append("ascending")       # some nets declared  wire [lo:hi] n;  (decided without drawing from rng)
            ctx.count("feature:ascending-declarations")
        text = vmodel.write(mods, rng, feats)
        f = os.path.join(d, "x.v")
        with open(f, "w") as fh:
            fh.write(text)
        f = common.input_variant(f, rng)       # (.v / .vh / .vm, any letter case, or a single-file zip archive)
        ctx.count("input_name:" + os.path.splitext(f)[1].lower())
        try:
            n = sdn.parse(f)
        except Exception as ex:  # noqa: BLE001
            fr = probes.innermost_frame(ex) or ""
            ctx.violation("reader-rejects-supported-text:%s:%s" % (type(ex).__name__, fr.split(":")[-1]),
                          "%s at %s | features=%s" % (str(ex)[:160], fr, feats), {"text": text[:6000]})
            return
        ctx.count("texts_parsed")
        for ft in feats:
            ctx.count("feature:" + ft)
        r = compare(ctx, mods, n, text)
        if r:
            ctx.violation(r[0], "%s | features=%s" % (r[1], feats), {"text": text[:6000]})
            return
        narrow = any(len(at) > 1 or (at and sum((1 if a[0] == "const" else a[1] - a[2] + 1) for a in at) <
                                     dict((p[0], p[2]) for p in next(mm for mm in mods if mm.name == ins.ref).ports).get(pn, 0))
                     for m in mods for ins in m.insts for pn, at in ins.conns.items())
        fwd = "shuffle" in feats or any(m.prim and not m.declared for m in mods)
        ctx.fingerprint(text, narrow and fwd)
        if i < 2:
            ctx.sample({"features": feats, "text_head": text[:800]})
    finally:
        shutil.rmtree(d, ignore_errors=True)


def probe_positional_forward():
    d = tempfile.mkdtemp(prefix="c06p_")
    try:
        f = os.path.join(d, "p.v")
        open(f, "w").write("module top(x, p, q);\n input x, p, q;\n sub s1(.b(x));\n sub s2(p, q);\nendmodule\n"
                           "module sub(a, b);\n input a, b;\nendmodule\n")
        try:
            n = sdn.parse(f)
        except AssertionError:
            return True
        top = n.top_instance.reference
        s2 = next(c for c in top.children if c.name == "s2")
        for op in s2.pins:
            if op.wire is not None and op.wire.cable.name == "p":
                return op.inner_pin.port.name != "a"
        return True
    finally:
        shutil.rmtree(d, ignore_errors=True)


FENCE_FEATURES = {}
PROBES = {"positional-map-before-declaration": probe_positional_forward}
