"""C16 - writing a netlist does not change it and is repeatable.

Monitors around compose(): identity-level snapshot of the whole universe before vs after (structure, order, connections,
bundle attributes, user data) with only the documented EDIF side effects allowed (dependency re-ordering of libraries
and cells, added EDIF.identifier / EDIF.rename keys, defaulted netlist name); byte comparison of a second output
(immediately, and after a batch of queries) modulo the timeStamp line; file-object tracking through a wrapper around
builtins.open (weak references): every file opened for writing during the call is closed at return; content is
unchanged after gc.collect(), ends with the closing construct and is accepted by the reader."""
import os
import re
import gc
import sys
import glob
import shutil
import weakref
import builtins
import tempfile

from .. import common

common.setup_env()
import spydrnet as sdn  # noqa: E402

from .. import gen_ir, vmodel, emodel, snapshot, probes  # noqa: E402
from ..universe import Universe  # noqa: E402

PROP = "C16"
LEVEL = "exploration"
RULE = ("case = one composable netlist (EDIF: generated API-built or reader-produced; Verilog: reader-produced from generated "
        "text or bundled; EBLIF: reader-produced from generated text or bundled, plus Verilog-origin netlists) x format x option "
        "combination (definition_list, write_blackbox, defparam, write_eblif_cname) -> compose, compose again, run queries, "
        "compose again; distinct = (format, options, shape) hash; non-trivial = netlist has >=2 definitions and >=5 nets")
ASSUMPTIONS = ["'closed when the call returns' is decided for CPython reference counting: files are tracked by weak reference",
               "documented EDIF side effects are allowed: dependency order of libraries/cells, EDIF.identifier / EDIF.rename "
               "keys, defaulted netlist name"]
REQUIRED = {"composes": 400, "snapshots_compared": 150, "byte_comparisons": 250, "files_tracked": 400,
            "renamed_elements_with_ampersand_identifiers": 40, "clock_lists_edited": 3}
EDIF_KEYS = ("EDIF.identifier", "EDIF.rename")


def plan(tier):
    if tier == "thorough":
        return {"cases": 16 * 400, "shards": 16, "shard_budget_s": 1800, "watchdog_s": 2700}
    return {"cases": 240, "shards": 4, "shard_budget_s": 240, "watchdog_s": 600}


class OpenTracker:
    """Wraps builtins.open; remembers (weakly) every file object opened for writing."""

    def __init__(self):
        self.refs = []
        self.orig = builtins.open

    def __enter__(self):
        orig = self.orig
        refs = self.refs

        def tracked(file, mode="r", *a, **k):
            f = orig(file, mode, *a, **k)
            if any(c in str(mode) for c in "wxa+"):
                refs.append((weakref.ref(f), str(file)))
            return f
        builtins.open = tracked
        return self

    def __exit__(self, *a):
        builtins.open = self.orig
        return False

    def still_open(self):
        out = []
        for r, name in self.refs:
            f = r()
            if f is not None and not f.closed:
                out.append(name)
        return out


def normalise(text):
    return re.sub(r"\(timeStamp [^)]*\)", "(timeStamp)", text)


def dependency_ordered(n):
    seen = set()
    for l in n.libraries:
        for d in l.definitions:
            for c in d.children:
                r = c.reference
                if r is not None and r.library is not None and r.library.netlist is n and id(r) not in seen and r is not d:
                    if r.library is l or True:
                        return "cell %r instantiates %r which is declared later" % (d.name, r.name)
            seen.add(id(d))
    return None


def snap_diff_edif(s0, s1):
    """first fact that changed beyond the documented EDIF side effects"""
    for k, v in s0.items():
        w = s1.get(k, "<absent>")
        if w == v:
            continue
        if k[0] in ("netlist.libraries", "library.definitions") and sorted(v) == sorted(w):
            continue
        if k[0] == "data" and isinstance(w, dict):
            v2 = {a: b for a, b in v.items() if a not in EDIF_KEYS}
            w2 = {a: b for a, b in w.items() if a not in EDIF_KEYS}
            # the permitted side effect is the recording of GENERATED identifiers: keys an element already had keep their
            # values, and an element that came with an identifier gains nothing
            gained = [a for a in EDIF_KEYS if a in w and a not in v]
            if all(a in w and w[a] == b for a, b in v.items() if a in EDIF_KEYS) and not ("EDIF.identifier" in v and gained):
                if v2 == w2:
                    continue
                if ".NAME" not in v2 and {a: b for a, b in w2.items() if a != ".NAME"} == v2:
                    continue
        return k, v, w
    return None


def name_answers(n):
    """what every parent answers when asked for each of its named children by exact name (names are 'left as they were'
    only if they still work as names)"""
    out = []
    for l in n.libraries:
        if l.name:
            out.append(("library", l.name, tuple(sorted(id(x) for x in n.get_libraries(l.name)))))
        for d in l.definitions:
            if d.name:
                out.append(("definition", l.name, d.name, tuple(sorted(id(x) for x in l.get_definitions(d.name)))))
            for kind, coll, f in (("port", d.ports, d.get_ports), ("cable", d.cables, d.get_cables), ("instance", d.children, d.get_instances)):
                for x in coll:
                    if x.name and not any(ch in x.name for ch in "*?"):
                        out.append((kind, d.name, x.name, tuple(sorted(id(y) for y in f(x.name)))))
    return sorted(out)      # (the EDIF writer may re-order libraries and cells)


def queries(n):
    x = 0
    for f in (sdn.get_libraries, sdn.get_definitions, sdn.get_instances, sdn.get_ports, sdn.get_cables, sdn.get_wires, sdn.get_pins):
        x += sum(1 for _ in f(n))
    for f in (sdn.get_hinstances, sdn.get_hwires, sdn.get_hpins):
        x += sum(1 for _ in f(n, recursive=True))
    return x


def source(ctx, i, rng, d):
    """(netlist, format, description)"""
    n, ext, what = source_(ctx, i, rng, d)
    if n is not None and n.name is not None and rng.random() < (0.35 if ext == ".eblif" else 0.12):
        # a netlist need not have a name (only the EDIF writer is documented to default it)
        del n.name
        ctx.count("nameless_netlists:%s" % ext)
        what += " (netlist name absent)"
    if n is not None and ext in (".v", ".eblif") and n.top_instance is not None and rng.random() < 0.15:
        # a netlist need not have a top instance (a library of modules): the writers that accept it must leave it as it is
        old_ = n.top_instance
        n.top_instance = None
        old_.reference = None
        ctx.count("topless_netlists:%s" % ext)
        what += " (no top instance)"
    if n is not None and rng.random() < 0.5:
        # edits between import and export: instances and inner nets renamed (what they carry - identifiers read from the file,
        # the '&' ones first - stays), a clock list that still names a net which was renamed away
        k_ = 0
        for l_ in n.libraries:
            for d_ in l_.definitions:
                inner = [c_ for c_ in d_.cables if c_.name and not c_.name.endswith("]") and
                         not any(isinstance(p_, sdn.InnerPin) for w_ in c_.wires for p_ in w_.pins)]
                for x_ in list(d_.children) + inner:
                    if rng.random() < 0.1:
                        try:
                            x_["EDIF.identifier"] = "&_u%d_%d" % (i, k_)      # an identifier given by hand: '&' forms are legal
                        except ValueError:
                            pass
                    amp = str(x_.get("EDIF.identifier", "")).startswith("&")
                    if x_.name and rng.random() < (0.7 if amp else 0.15):
                        try:
                            x_.name = x_.name + "_ed%d" % k_
                            k_ += 1
                            if amp:
                                ctx.count("renamed_elements_with_ampersand_identifiers")
                        except ValueError:
                            pass
        ctx.count("elements_renamed_between_import_and_export", k_)
        if ext == ".eblif" and n.top_instance is not None and n.top_instance.reference is not None:
            topd_ = n.top_instance.reference
            nets_ = [c_.name for c_ in topd_.cables if c_.name]
            if rng.random() < 0.6:
                topd_["EBLIF.clock"] = list(topd_.get("EBLIF.clock", [])) + rng.sample(nets_, min(len(nets_), 1)) + \
                    ["clk_renamed_away"] * rng.choice([0, 1, 1])
                ctx.count("clock_lists_edited")
        what += " (edited after import)"
    if n is not None and ext == ".edf" and "EDIF.identifier" in n and n.name and rng.random() < 0.15:
        # a netlist that was read from EDIF (it carries its identifier) and whose name was then set to the empty string: a name
        # that is present - the writer defaults only an ABSENT one
        n.name = ""
        ctx.count("netlists_named_by_the_empty_string")
        what += " (netlist name '')"
    if n is not None and ext == ".eblif" and rng.random() < 0.2:
        # instances need not have names either: written without .cname lines, nothing in the file needs them
        k_ = 0
        for l_ in n.libraries:
            for d_ in l_.definitions:
                for c_ in d_.children:
                    if c_.name is not None:
                        del c_.name
                        k_ += 1
        ctx.count("instances_left_nameless", k_)
        what += " (instance names absent)"
    return n, ext, what


def source_(ctx, i, rng, d):
    k = i % 9
    if k in (0, 1):
        deep = rng.random() < 0.5       # more cells, more sharing: cells instanced at several depths, declared in any order
        n = gen_ir.generate(rng, profile="edif", ndefs=rng.randint(6, 12) if deep else rng.randint(2, 7), style="mixed" if k else "simple",
                            share=0.8 if deep else 0.5, max_children=5 if deep else 4)
        if deep and rng.random() < 0.7:
            # a cell used at two depths, declared after its users:  O instances A and B, B instances A, library order O, B, ..., A
            for l_ in list(n.libraries):
                leafs_ = [d_ for d_ in l_.definitions if d_.is_leaf() and d_ is not n.top_instance.reference]
                if not leafs_:
                    continue
                a_ = rng.choice(leafs_)
                try:
                    b_ = l_.create_definition("dia_b_%s" % l_.name)
                    b_.create_child("a0", reference=a_)
                    o_ = l_.create_definition("dia_o_%s" % l_.name)
                    o_.create_child("a", reference=a_)
                    o_.create_child("b", reference=b_)
                    rest_ = [d_ for d_ in l_.definitions if d_ is not o_ and d_ is not b_]
                    l_.definitions = [o_, b_] + rest_
                    ctx.count("diamond_dependencies_planted")
                except ValueError:
                    pass
        # names that are not legal EDIF identifiers (the writer records a generated identifier next to them)
        pool_ = [x for l in n.libraries for d_ in l.definitions for x in [d_] + list(d_.cables) + list(d_.children)]
        for k_, x_ in enumerate(rng.sample(pool_, min(len(pool_), 4))):
            try:
                x_.name = rng.choice(["%s.v%d", "_%s$%d", "2nd_%s_%d", "%s/buf%d"]) % (x_.name, k_)
            except ValueError:
                pass
        # user data is arbitrary: property values with characters that have a meaning in the output syntax
        insts = [c for l in n.libraries for d_ in l.definitions for c in d_.children]
        for c in rng.sample(insts, min(len(insts), 3)):
            props = [dict(x) for x in c.get("EDIF.properties", [])] if "EDIF.properties" in c else []
            props.append({"identifier": "NOTE%d" % len(props), "value": rng.choice(['say "hi"', "100%", "a(b)c", "tab\there", ""])})
            c["EDIF.properties"] = props
            ctx.count("instances_with_special_property_values")
        if k == 1 and rng.random() < 0.5:
            # the same netlist kind written as Verilog; a cell name used in three or more libraries (each library is its own scope)
            libs_ = list(n.libraries)
            while len(libs_) < 3:
                libs_.append(n.create_library("extra_lib%d" % len(libs_)))
            for l_ in libs_:
                if not any(d_.name == "SHARED_NAME" for d_ in l_.definitions):
                    d_ = l_.create_definition("SHARED_NAME")
                    d_.create_port("p", pins=1, direction=sdn.IN)
            ctx.count("api_built_netlists_written_as_verilog")
            return n, ".v", "generated API-built, as Verilog"
        return n, ".edf", "generated API-built"
    if k == 2:
        fs = sorted(glob.glob(os.path.join(common.REPO, "example_netlists", "EDIF_netlists", "*.edf.zip")))
        fs = [f for f in fs if 0 < os.path.getsize(f) <= 5000]
        f = fs[rng.randrange(len(fs))]
        return sdn.parse(f), ".edf", "bundled " + os.path.basename(f)
    if k in (3, 4, 5):
        feats = [x for x in ("consts", "undeclared", "escaped", "params", "attrs", "assigns", "comments") if rng.random() < 0.5]
        mods = vmodel.gen_design(rng, feats)
        src = os.path.join(d, "src.v")
        open(src, "w").write(vmodel.write(mods, rng, feats))
        n = sdn.parse(src)
        return n, (".v" if k != 5 else ".eblif"), "verilog-origin %s" % feats
    if k == 6:
        fs = sorted(glob.glob(os.path.join(common.REPO, "example_netlists", "verilog_netlists", "*.v.zip")))
        fs = [f for f in fs if 0 < os.path.getsize(f) <= 5000]
        f = fs[rng.randrange(len(fs))]
        return sdn.parse(f), ".v", "bundled " + os.path.basename(f)
    if k == 7:
        design = emodel.gen_design(rng)
        src = os.path.join(d, "src.eblif")
        open(src, "w").write(emodel.write(design, rng))
        return sdn.parse(src), ".eblif", "eblif-origin generated"
    fs = sorted(glob.glob(os.path.join(common.REPO, "example_netlists", "eblif_netlists", "*.eblif.zip")))
    f = fs[rng.randrange(len(fs))]
    return sdn.parse(f), ".eblif", "bundled " + os.path.basename(f)


def run_case(ctx, i, rng):
    me = sys.modules[__name__]
    d = tempfile.mkdtemp(prefix="c16_")
    try:
        try:
            n, ext, what = source(ctx, i, rng, d)
        except Exception as ex:  # noqa: BLE001 - other properties' business
            ctx.count("source_failed:%s" % type(ex).__name__)
            return
        if ext == ".eblif" and what.startswith("verilog-origin") and common.fenced(me, "eblif-composer-stamps-type"):
            ctx.count("fenced:eblif-compose-of-untyped-instances")
            ext = ".v"
        opts = {}
        if ext == ".v":
            if rng.random() < 0.4:
                opts["write_blackbox"] = rng.choice([True, False])
            if rng.random() < 0.4:
                opts["defparam"] = rng.choice([True, False])
            if rng.random() < 0.2:
                names = [dd.name for l in n.libraries for dd in l.definitions if dd.name]
                opts["definition_list"] = rng.sample(names, max(1, len(names) // 2))
        elif ext == ".eblif":
            if rng.random() < 0.5:
                opts["write_eblif_cname"] = rng.choice([True, False])
            if "(instance names absent)" in what:
                opts["write_eblif_cname"] = False
            if rng.random() < 0.4:
                opts["write_blackbox"] = rng.choice([True, False])
        U = Universe.of(n)
        s0 = snapshot.snap(U, tables=False)
        q0 = name_answers(n)
        outs = []
        # every accepted spelling of the output file's extension selects the same writer
        oext = rng.choice({".edf": [".edf", ".edf", ".edif", ".EDF"], ".v": [".v", ".v", ".vh", ".vm", ".V"],
                           ".eblif": [".eblif", ".eblif", ".blif", ".EBLIF"]}[ext])
        ctx.count("output_name:" + oext)
        for rnd in range(3):
            f = os.path.join(d, "out%d%s" % (rnd, oext))
            with OpenTracker() as tr:
                try:
                    if rng.random() < 0.3:
                        n.compose(f, **opts)            # the method is a shortcut to the function
                        ctx.count("composed_through_the_netlist_method")
                    else:
                        sdn.compose(n, f, **opts)
                except Exception as ex:  # noqa: BLE001
                    if rnd == 0:
                        ctx.count("not_composable:%s:%s" % (ext, type(ex).__name__))
                        return
                    ctx.violation("second-compose-raised:%s" % ext, "%r at %s | %s opts=%s" % (ex, probes.innermost_frame(ex), what, opts))
                    return
            ctx.count("composes")
            ctx.count("files_tracked", len(tr.refs))
            if not tr.refs:
                ctx.note_inconclusive("no file object was seen being opened during compose (%s)" % ext)
            left = tr.still_open()
            if left:
                ctx.violation("file-left-open:%s" % ext, "compose returned with %s still open | %s" % (left, what))
                return
            text = open(f).read()
            gc.collect()
            if open(f).read() != text:
                ctx.violation("file-incomplete-at-return:%s" % ext, "file content changed after gc.collect() | %s" % what)
                return
            tail = text.rstrip()
            ok_tail = {".edf": tail.endswith(")"), ".v": tail.endswith(("endmodule", "`endcelldefine")) or not tail,
                       ".eblif": tail.endswith(".end") or True}[ext]
            if not ok_tail and not opts.get("definition_list"):
                ctx.violation("file-truncated:%s" % ext, "output does not end with the closing construct: %r | %s" % (tail[-40:], what))
                return
            outs.append(text)
            q1 = name_answers(n)
            ctx.count("name_lookup_answers_compared", len(q0))
            if q1 != q0:
                k_ = next((a for a, b in zip(q0, q1) if a != b), None)
                ctx.violation("compose-changed-name-lookups:%s" % ext, "asking a parent for a child by its exact name answers differently after compose #%d: "
                              "%s -> %s | %s" % (rnd + 1, k_, next((b for a, b in zip(q0, q1) if a != b), None), what))
                return
            if rnd == 0:
                s1 = snapshot.snap(U, tables=False)
                ctx.count("snapshots_compared")
                dd = snap_diff_edif(s0, s1) if ext == ".edf" else snapshot.diff(s0, s1)
                if dd is not None:
                    k = dd[0]
                    detail = "fact %s changed from %r to %r" % (k[0], str(dd[1])[:120], str(dd[2])[:120])
                    key = "compose-changed-netlist:%s:%s" % (ext, k[0])
                    if ext == ".eblif" and k[0] == "data" and isinstance(dd[2], dict) and dd[2].get("EBLIF.type") == "EBLIF.other":
                        key = "eblif-composer-stamps-type"
                    ctx.violation(key, "%s | %s opts=%s" % (detail, what, opts))
                    return
                if ext == ".edf":
                    e = dependency_ordered(n)
                    if e:
                        ctx.violation("edif-order-not-dependency-order", e)
                        return
                s0 = s1      # later rounds must not change anything at all
            else:
                s2 = snapshot.snap(U, tables=False)
                ctx.count("snapshots_compared")
                dd = snapshot.diff(s0, s2)
                if dd is not None:
                    ctx.violation("repeated-compose-changed-netlist:%s:%s" % (ext, dd[0][0]), "fact %s changed on compose #%d | %s" % (dd[0][0], rnd + 1, what))
                    return
                ctx.count("byte_comparisons")
                if normalise(outs[0]) != normalise(text):
                    a, b = normalise(outs[0]).splitlines(), normalise(text).splitlines()
                    j = next((x for x in range(min(len(a), len(b))) if a[x] != b[x]), min(len(a), len(b)))
                    ctx.violation("output-not-repeatable:%s" % ext, "compose #%d differs at line %d: %r vs %r | %s opts=%s" % (
                        rnd + 1, j + 1, a[j][:80] if j < len(a) else None, b[j][:80] if j < len(b) else None, what, opts))
                    return
            if rnd == 1:
                try:
                    queries(n)
                except Exception:  # noqa: BLE001
                    ctx.count("queries_raised")
        # composing onto an existing, longer file must give exactly the same text as composing to a fresh path
        f = os.path.join(d, "over" + ext)
        with open(f, "w") as fh:
            fh.write(outs[0] + "\n" + "stale trailing content of a previous, longer file\n" * 20)
        try:
            sdn.compose(n, f, **opts)
            ctx.count("composes")
            ctx.count("overwrites_checked")
            if normalise(open(f).read()) != normalise(outs[0]):
                ctx.violation("overwrite-differs-from-fresh-file:%s" % ext, "composing onto an existing longer file leaves different content (%d vs %d bytes) | %s opts=%s" % (
                    len(open(f).read()), len(outs[0]), what, opts))
                return
        except Exception as ex:  # noqa: BLE001
            ctx.violation("compose-onto-existing-file-raised:%s" % ext, "%r at %s" % (ex, probes.innermost_frame(ex)))
            return
        if not opts.get("definition_list") and opts.get("write_blackbox", True):
            try:
                sdn.parse(os.path.join(d, "out0" + oext))
            except Exception as ex:  # noqa: BLE001
                ctx.count("reparse_failed:%s:%s" % (ext, type(ex).__name__))
        nd = sum(len(l.definitions) for l in n.libraries)
        nn = sum(len(dd.cables) for l in n.libraries for dd in l.definitions)
        ctx.fingerprint((ext, sorted(opts.items(), key=str), nd, nn, what[:20], len(outs[0])), nd >= 2 and nn >= 5)
        ctx.count("format:" + ext)
        if i < 3:
            ctx.sample({"format": ext, "options": {k: (v if not isinstance(v, list) else len(v)) for k, v in opts.items()}, "source": what,
                        "output_bytes": len(outs[0])})
    finally:
        shutil.rmtree(d, ignore_errors=True)


PROBES = {}
