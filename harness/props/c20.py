"""C20 - the netlist comparer accepts equal netlists and rejects structural differences.

Monitor: accept/reject matrix.  Positive side: Comparer(n, copy).compare() must return normally for a faithful
copy (API-level rebuild, clone, EDIF write-then-read), in both argument orders.  Negative side: the copy
carries exactly ONE mutation from the documented list (verified against the canonical form: exactly one
examined fact differs) and compare() must raise, in both argument orders."""
import io
import os
import sys
import shutil
import tempfile
import contextlib

from .. import common

common.setup_env()
import spydrnet as sdn  # noqa: E402
from spydrnet.compare.compare_netlists import Comparer  # noqa: E402
from spydrnet.ir.outerpin import OuterPin as BaseOuterPin  # noqa: E402

from .. import gen_ir, canon  # noqa: E402
from ..rebuild import rebuild  # noqa: E402

PROP = "C20"
LEVEL = "exploration"
RULE = ("case = one generated fully named netlist x {faithful copies: rebuild, clone, EDIF round trip} x both argument orders, "
        "then every applicable single-fact mutation kind (26 kinds: port direction/width/array-ness, cable width, outer "
        "connection moved to another instance / another port / another bit, inner connection moved, instance re-pointed to "
        "a same-shaped cell, property value changed / property added to an instance without any / last property dropped / property appended, one library/definition/port/cable/instance dropped or "
        "added) at a random site x both orders; distinct = shape hash; non-trivial = >=12 mutation kinds applicable")
ASSUMPTIONS = ["any exception counts as 'raises' (lookups by name raise StopIteration when the named element is gone)",
               "copies for the negative side are rebuilt through the API (clone is not registered with the namespace manager)"]
REQUIRED = {"positive_compares": 200, "mutants_compared": 2000, "mutation_kinds": 18,
            "instances_rewired_through_handles_then_repointed": 5}


def plan(tier):
    if tier == "thorough":
        return {"cases": 16 * 150, "shards": 16, "shard_budget_s": 1500, "watchdog_s": 2400}
    return {"cases": 80, "shards": 4, "shard_budget_s": 240, "watchdog_s": 600}


def run_compare(a, b):
    """None if compare() returned normally, else the exception."""
    buf = io.StringIO()
    try:
        with contextlib.redirect_stdout(buf):
            Comparer(a, b).compare()
        return None
    except BaseException as ex:  # noqa: BLE001 - StopIteration etc. included
        if isinstance(ex, (KeyboardInterrupt, common.CaseTimeout)):
            raise
        return ex


def defs_of(n):
    return [d for l in n.libraries for d in l.definitions]


def outer_sites(n):
    out = []
    for d in defs_of(n):
        for c in d.cables:
            for w in c.wires:
                for k, p in enumerate(w.pins):
                    if isinstance(p, BaseOuterPin):
                        out.append((d, w, k, p))
    return out


def inner_sites(n):
    out = []
    for d in defs_of(n):
        for c in d.cables:
            for w in c.wires:
                for k, p in enumerate(w.pins):
                    if not isinstance(p, BaseOuterPin):
                        out.append((d, w, k, p))
    return out


def replace_pin(w, k, old, new):
    w.disconnect_pin(old)
    w.connect_pin(new, position=k)


# each mutation: (rng, copy) -> description or None when not applicable
def m_port_direction(r, b):
    ps = [p for d in defs_of(b) for p in d.ports]
    if not ps:
        return None
    p = r.choice(ps)
    p.direction = r.choice([x for x in (sdn.IN, sdn.OUT, sdn.INOUT, sdn.Port.Direction.UNDEFINED) if x is not p.direction])
    return "direction of port %s.%s" % (p.definition.name, p.name)


def m_port_wider(r, b):
    ps = [p for d in defs_of(b) for p in d.ports if len(p.pins) >= 2]
    if not ps:
        return None
    p = r.choice(ps)
    p.create_pin()
    return "port %s.%s one pin wider" % (p.definition.name, p.name)


def m_port_narrower(r, b):
    ps = [p for d in defs_of(b) for p in d.ports if len(p.pins) >= 3]
    if not ps:
        return None
    p = r.choice(ps)
    p.remove_pin(p.pins[-1])
    return "port %s.%s one pin narrower" % (p.definition.name, p.name)


def m_port_arrayness(r, b):
    ps = [p for d in defs_of(b) for p in d.ports if len(p.pins) == 1]
    if not ps:
        return None
    p = r.choice(ps)
    p.is_scalar = not p.is_scalar
    return "array-ness of 1-wide port %s.%s" % (p.definition.name, p.name)


def m_cable_wider(r, b):
    cs = [c for d in defs_of(b) for c in d.cables if len(c.wires) >= 1]
    if not cs:
        return None
    c = r.choice(cs)
    c.create_wire()
    return "cable %s.%s one wire wider" % (c.definition.name, c.name)


def m_cable_narrower(r, b):
    cs = [c for d in defs_of(b) for c in d.cables if len(c.wires) >= 2 and not len(c.wires[-1].pins)]
    if not cs:
        return None
    c = r.choice(cs)
    c.remove_wire(c.wires[-1])
    return "cable %s.%s one wire narrower" % (c.definition.name, c.name)


def m_outer_other_instance(r, b):
    sites = outer_sites(b)
    r.shuffle(sites)
    for d, w, k, p in sites:
        cands = [op for ch in d.children if ch is not p.instance for op in ch.pins if op.wire is None]
        if cands:
            q = r.choice(cands)
            replace_pin(w, k, p, q)
            return "connection of %s.%s moved from instance %s to instance %s" % (d.name, w.cable.name, p.instance.name, q.instance.name)
    return None


def m_outer_other_port(r, b):
    sites = outer_sites(b)
    r.shuffle(sites)
    for d, w, k, p in sites:
        cands = [op for op in p.instance.pins if op.wire is None and op.inner_pin.port is not p.inner_pin.port and
                 list(op.inner_pin.port.pins).index(op.inner_pin) == list(p.inner_pin.port.pins).index(p.inner_pin)]
        if cands:
            q = r.choice(cands)
            replace_pin(w, k, p, q)
            return "connection of %s.%s moved to another port (%s -> %s) of instance %s, same bit" % (
                d.name, w.cable.name, p.inner_pin.port.name, q.inner_pin.port.name, p.instance.name)
    return None


def m_outer_other_bit(r, b):
    sites = outer_sites(b)
    r.shuffle(sites)
    for d, w, k, p in sites:
        cands = [op for op in p.instance.pins if op.wire is None and op.inner_pin.port is p.inner_pin.port and op is not p]
        if cands:
            q = r.choice(cands)
            replace_pin(w, k, p, q)
            return "connection of %s.%s moved to another bit of port %s of instance %s" % (d.name, w.cable.name, p.inner_pin.port.name, p.instance.name)
    return None


def m_inner_other_port(r, b):
    sites = inner_sites(b)
    r.shuffle(sites)
    for d, w, k, p in sites:
        cands = [x for port in d.ports if port is not p.port for x in port.pins if x.wire is None and
                 list(port.pins).index(x) == list(p.port.pins).index(p)]
        if cands:
            q = r.choice(cands)
            replace_pin(w, k, p, q)
            return "port connection of %s.%s moved from port %s to port %s, same bit" % (d.name, w.cable.name, p.port.name, q.port.name)
    return None


def m_inner_other_bit(r, b):
    sites = inner_sites(b)
    r.shuffle(sites)
    for d, w, k, p in sites:
        cands = [x for x in p.port.pins if x.wire is None and x is not p]
        if cands:
            q = r.choice(cands)
            replace_pin(w, k, p, q)
            return "port connection of %s.%s moved to another bit of port %s" % (d.name, w.cable.name, p.port.name)
    return None


def shape(d):
    return tuple(len(p.pins) for p in d.ports)


def m_repoint(r, b):
    insts = [c for d in defs_of(b) for c in d.children]
    r.shuffle(insts)
    for i in insts:
        cands = [d for d in defs_of(b) if d is not i.reference and shape(d) == shape(i.reference) and d is not i.parent and
                 not d.children]
        if cands:
            d2 = r.choice(cands)
            old = i.reference.name
            i.reference = d2
            return "instance %s.%s re-pointed from %s to same-shaped %s" % (i.parent.name, i.name, old, d2.name)
    return None


def m_repoint_twin(r, b):
    """an instance re-pointed to the definition of the SAME NAME and shape in another library (unconnected instances first)."""
    insts = [c for d in defs_of(b) for c in d.children]
    r.shuffle(insts)
    insts.sort(key=lambda c: any(op.wire is not None for op in c.pins))
    for i in insts:
        cands = [d for d in defs_of(b) if d is not i.reference and d.name == i.reference.name and d.library is not i.reference.library and
                 shape(d) == shape(i.reference) and not d.children and d is not i.parent]
        if cands:
            d2 = r.choice(cands)
            lib0 = i.reference.library.name
            conn = sum(1 for op in i.pins if op.wire is not None)
            i.reference = d2
            return "instance %s.%s (%d connected pins) re-pointed from %s.%s to the same-named definition of library %s" % (
                i.parent.name, i.name, conn, lib0, d2.name, d2.library.name)
    return None


def plant_twins(rng, n):
    """Same-named, same-shaped leaf definitions in two libraries, and an unconnected instance of one of them."""
    libs = list(n.libraries)
    leafs = [d for d in defs_of(n) if not d.children and d.references and d.name]
    rng.shuffle(leafs)
    k = 0
    for d in leafs[:2]:
        others = [l for l in libs if l is not d.library and not any(x.name and x.name.lower() == d.name.lower() for x in l.definitions)]
        if not others:
            continue
        t = rng.choice(others).create_definition(d.name)
        for p in d.ports:
            q = t.create_port(p.name, direction=p.direction, pins=len(p.pins) or None)
            if len(p.pins):
                q.is_downto, q.lower_index = p.is_downto, p.lower_index
                if not p.is_scalar:
                    q.is_scalar = False
        # only below a definition that already instantiates d (no new library dependency: they must stay acyclic)
        parents = [x.parent for x in d.references if x.parent is not None]
        if parents:
            par = rng.choice(parents)
            nm = "spare%d" % k
            if not any(c.name and c.name.lower() == nm for c in par.children):
                par.create_child(nm, reference=d)
        k += 1
    return k


def handles_then_repoint(rng, n):
    """A history of legal edits: instance pins re-connected through by-value handles (OuterPin.from_instance_and_inner_pin),
    then the instance re-pointed to another leaf cell of the same shape."""
    k = 0
    insts = [c for d in defs_of(n) for c in d.children if c.reference is not None]
    rng.shuffle(insts)
    for i in insts[:16]:
        cands = [d for d in defs_of(n) if d is not i.reference and shape(d) == shape(i.reference) and d is not i.parent and
                 not d.children and d.library is not None and
                 (d.library is i.parent.library or d.library is i.reference.library)]      # (no new library dependency)
        wired = [op for op in i.pins if op.wire is not None]
        if not cands or not wired:
            continue
        for op in wired:
            if rng.random() < 0.7:
                w = op.wire
                h = sdn.OuterPin.from_instance_and_inner_pin(i, op.inner_pin)
                w.disconnect_pin(h)
                w.connect_pin(sdn.OuterPin.from_instance_and_inner_pin(i, op.inner_pin))
        i.reference = rng.choice(cands)
        k += 1
    return k


def plant_case_twins(rng, n):
    """Siblings whose names differ only in letter case (legal: names are case-sensitive), the lower-case one first."""
    k = 0
    for d in defs_of(n):
        if rng.random() < 0.5:
            continue
        for c in list(d.cables)[:2]:
            t = c.name.upper() if c.name and c.name.upper() != c.name else None
            if t and not any(x.name == t for x in d.cables):
                try:
                    # (same shape as its twin - a one-wire SCALAR net named like a bus bit, x[2], is outside the EDIF domain)
                    t_ = d.create_cable(t, wires=len(c.wires) or 1, is_downto=c.is_downto, lower_index=c.lower_index)
                    if len(c.wires) and not c.is_scalar:
                        t_.is_scalar = False
                    elif t.endswith("]"):
                        d.remove_cable(t_)
                        continue
                    k += 1
                except ValueError:
                    pass
        for c in list(d.children)[:1]:
            t = c.name.upper() if c.name and c.name.upper() != c.name else None
            if t and c.reference is not None and c.reference.is_leaf() and not any(x.name == t for x in d.children):
                try:
                    d.create_child(t, reference=c.reference)
                    k += 1
                except ValueError:
                    pass
    return k


def m_move_pin_within_bus(r, b):
    """the LAST pin of one wire of a bus moved to another wire of the same bus (the cable's pin total stays the same)"""
    cs = [(c, w) for d in defs_of(b) for c in d.cables if len(c.wires) >= 2 for w in c.wires if len(w.pins)]
    if not cs:
        return None
    c, w = r.choice(cs)
    p = list(w.pins)[-1]
    w2 = r.choice([x for x in c.wires if x is not w])
    w.disconnect_pin(p)
    w2.connect_pin(p)
    return "last pin of %s.%s[%d] moved to bit %d of the same bus" % (c.definition.name, c.name, list(c.wires).index(w), list(c.wires).index(w2))


def m_connect_floating_wire(r, b):
    """a wire that joins nothing gets a pin that was open (an inner pin of the same definition or a pin of one of its instances)"""
    cs = []
    for d in defs_of(b):
        free = [pin for pt in d.ports for pin in pt.pins if pin.wire is None]
        free += [op for i in d.children for op in i.pins.values() if op.wire is None]
        if free:
            cs += [(c, w, free) for c in d.cables for w in c.wires if not len(w.pins)]
    if not cs:
        return None
    c, w, free = r.choice(cs)
    w.connect_pin(r.choice(free))
    return "floating wire %s.%s[%d] connected to a pin that was open" % (c.definition.name, c.name, list(c.wires).index(w))


def m_float_wire(r, b):
    """every pin of one wire disconnected (the wire stays, joining nothing)"""
    cs = [(c, w) for d in defs_of(b) for c in d.cables for w in c.wires if len(w.pins)]
    if not cs:
        return None
    c, w = r.choice(cs)
    for pin in list(w.pins):
        w.disconnect_pin(pin)
    return "all pins of %s.%s[%d] disconnected" % (c.definition.name, c.name, list(c.wires).index(w))


def plant_wide(rng, n):
    """A port several hundred bits wide, connected on high bits - inside its definition and on an instance of it."""
    topd = n.top_instance.reference
    lib = topd.library
    if lib is None or any(d.name == "WIDE_CELL" for d in lib.definitions):
        return 0
    w = rng.choice([258, 300, 600])
    d = lib.create_definition("WIDE_CELL")
    p = d.create_port("wide", pins=w, direction=sdn.IN)
    c = d.create_cable("inner_wide", wires=w)
    for k in (0, 1, w - 1, w - 2, 257, rng.randrange(257, w)):
        if p.pins[k].wire is None:
            c.wires[k].connect_pin(p.pins[k])
    i = topd.create_child("wide_inst", reference=d)
    oc = topd.create_cable("outer_wide", wires=w)
    for k in (0, w - 1, 257, rng.randrange(257, w)):
        op = i.pins[p.pins[k]]
        if op.wire is None:
            oc.wires[k].connect_pin(op)
    return 1


def m_property_value(r, b):
    insts = [c for d in defs_of(b) for c in d.children if "EDIF.properties" in c and c["EDIF.properties"]]
    if not insts:
        return None
    i = r.choice(insts)
    props = [dict(x) for x in i["EDIF.properties"]]
    props[0]["value"] = "changed"
    i["EDIF.properties"] = props
    return "value of a property of instance %s.%s" % (i.parent.name, i.name)


def m_property_value_type(r, b):
    """the same text, another type: 4 -> "4", True -> "True", "7" -> 7 (a property value is compared as the value it is)"""
    insts = [c for d in defs_of(b) for c in d.children if "EDIF.properties" in c and c["EDIF.properties"]]
    r.shuffle(insts)
    for i in insts:
        props = [dict(x) for x in i["EDIF.properties"]]
        for k_, pr in enumerate(props):
            v = pr.get("value")
            if isinstance(v, bool) or isinstance(v, int):
                pr["value"] = str(v)
            elif isinstance(v, str) and v.lstrip("-").isdigit():
                pr["value"] = int(v)
            else:
                continue
            i["EDIF.properties"] = props
            return "type (not text) of the value of property %d of instance %s.%s: %r -> %r" % (k_, i.parent.name, i.name, v, pr["value"])
    return None


def m_property_added(r, b):
    insts = [c for d in defs_of(b) for c in d.children if "EDIF.properties" not in c]
    if not insts:
        return None
    i = r.choice(insts)
    i["EDIF.properties"] = [{"identifier": "ADDED", "value": 1}]
    return "EDIF.properties added to instance %s.%s" % (i.parent.name, i.name)


def m_property_dropped(r, b):
    insts = [c for d in defs_of(b) for c in d.children if len(c.get("EDIF.properties", []) or []) >= 1]
    if not insts:
        return None
    i = r.choice(insts)
    props = [dict(x) for x in i["EDIF.properties"]][:-1]
    if props:
        i["EDIF.properties"] = props
    else:
        del i["EDIF.properties"]
    return "last property of instance %s.%s dropped" % (i.parent.name, i.name)


def m_property_field_dropped(r, b):
    """one FIELD of one property entry is missing in the copy (the original name of a renamed property, or its value)"""
    insts = [c for d in defs_of(b) for c in d.children if len(c.get("EDIF.properties", []) or []) >= 1]
    r.shuffle(insts)
    for i in insts:
        props = [dict(x) for x in i["EDIF.properties"]]
        cands = [(k_, f_) for k_, pr in enumerate(props) for f_ in ("original_identifier", "value") if f_ in pr]
        if cands:
            k_, f_ = r.choice(cands)
            del props[k_][f_]
            i["EDIF.properties"] = props
            return "field %r of property %d of instance %s.%s missing in the copy" % (f_, k_, i.parent.name, i.name)
    return None


def m_property_field_added(r, b):
    insts = [c for d in defs_of(b) for c in d.children if len(c.get("EDIF.properties", []) or []) >= 1]
    if not insts:
        return None
    i = r.choice(insts)
    props = [dict(x) for x in i["EDIF.properties"]]
    k_ = r.randrange(len(props))
    if "original_identifier" in props[k_]:
        return None
    props[k_]["original_identifier"] = props[k_]["identifier"] + ".orig"
    i["EDIF.properties"] = props
    return "property %d of instance %s.%s has an original name only in the copy" % (k_, i.parent.name, i.name)


def m_property_appended(r, b):
    insts = [c for d in defs_of(b) for c in d.children if len(c.get("EDIF.properties", []) or []) >= 1]
    if not insts:
        return None
    i = r.choice(insts)
    i["EDIF.properties"] = [dict(x) for x in i["EDIF.properties"]] + [{"identifier": "APPENDED", "value": 2}]
    return "a property appended to instance %s.%s" % (i.parent.name, i.name)


def m_drop_library(r, b):
    used = set(id(c.reference.library) for d in defs_of(b) for c in d.children)
    used.add(id(b.top_instance.reference.library))
    ls = [l for l in b.libraries if id(l) not in used]
    if not ls:
        return None
    l = r.choice(ls)
    b.remove_library(l)
    return "library %s dropped" % l.name


def m_add_library(r, b):
    b.create_library("extra_lib")
    return "library added"


def m_drop_definition(r, b):
    ds = [d for d in defs_of(b) if not d.references]
    if not ds:
        return None
    d = r.choice(ds)
    for c in list(d.children):
        d.remove_child(c)
        c.reference = None
    d.library.remove_definition(d)
    return "definition %s dropped" % d.name


def m_add_definition(r, b):
    r.choice(list(b.libraries)).create_definition("EXTRA_DEF")
    return "definition added"


def m_drop_port(r, b):
    ps = [p for d in defs_of(b) for p in d.ports if all(x.wire is None for x in p.pins) and
          all(i.pins[x].wire is None for i in d.references for x in p.pins)]
    if not ps:
        return None
    p = r.choice(ps)
    nm = "%s.%s" % (p.definition.name, p.name)
    p.definition.remove_port(p)
    return "unconnected port %s dropped" % nm


def m_add_port(r, b):
    d = r.choice(defs_of(b))
    d.create_port("extra_port", pins=1, direction=sdn.IN)
    return "port added to %s" % d.name


def m_drop_cable(r, b):
    cs = [c for d in defs_of(b) for c in d.cables if all(not len(w.pins) for w in c.wires)]
    if not cs:
        return None
    c = r.choice(cs)
    nm = "%s.%s" % (c.definition.name, c.name)
    c.definition.remove_cable(c)
    return "unconnected cable %s dropped" % nm


def m_add_cable(r, b):
    d = r.choice(defs_of(b))
    d.create_cable("extra_cable", wires=1)
    return "cable added to %s" % d.name


def m_drop_instance(r, b):
    cs = [c for d in defs_of(b) for c in d.children if all(op.wire is None for op in c.pins)]
    if not cs:
        return None
    c = r.choice(cs)
    nm = "%s.%s" % (c.parent.name, c.name)
    c.parent.remove_child(c)
    c.reference = None
    return "unconnected instance %s dropped" % nm


def m_add_instance(r, b):
    ds = defs_of(b)
    leafs = [d for d in ds if d.is_leaf()]
    hosts = [d for d in ds if not d.is_leaf()]
    if not leafs or not hosts:
        return None
    h = r.choice(hosts)
    h.create_child("extra_inst", reference=r.choice(leafs))
    return "instance added to %s" % h.name


MUTATIONS = [m_move_pin_within_bus, m_connect_floating_wire, m_float_wire, m_port_direction, m_port_wider, m_port_narrower, m_port_arrayness, m_cable_wider, m_cable_narrower,
             m_outer_other_instance, m_outer_other_port, m_outer_other_bit, m_inner_other_port, m_inner_other_bit,
             m_repoint, m_repoint_twin, m_property_value, m_property_value_type, m_property_added, m_property_dropped, m_property_field_dropped, m_property_field_added, m_property_appended, m_drop_library, m_add_library, m_drop_definition,
             m_add_definition, m_drop_port, m_add_port, m_drop_cable, m_add_cable, m_drop_instance, m_add_instance]


def probe_verilog_roundtrip_order():
    """Open finding comparer-depends-on-pin-order-within-wire: a faithful Verilog write-then-read copy is rejected."""
    d = tempfile.mkdtemp(prefix="c20p_")
    try:
        f = os.path.join(d, "s.v")
        with open(f, "w") as fh:
            fh.write("module top(a, y, z);\n input a; output y; output z;\n wire w;\n BUF u0(.I(a), .O(w));\n assign y = w;\n assign z = w;\nendmodule\n")
        n = sdn.parse(f)
        g = os.path.join(d, "o.v")
        sdn.compose(n, g)
        b = sdn.parse(g)
        return isinstance(run_compare(n, b), AssertionError)
    finally:
        shutil.rmtree(d, ignore_errors=True)


def verilog_origin(ctx, rng):
    """A reader-produced netlist of the other kind: parsed from structural Verilog, assign statements included (they become
    instances named SDN_VERILOG_ASSIGNMENT_<width>_<n> of generated cells)."""
    from .. import vmodel
    d = tempfile.mkdtemp(prefix="c20v_")
    try:
        feats = ["shuffle"] + [x for x in ("assigns", "consts", "params", "attrs") if rng.random() < 0.6]
        f = os.path.join(d, "s.v")
        with open(f, "w") as fh:
            fh.write(vmodel.write(vmodel.gen_design(rng, feats), rng, feats))
        return sdn.parse(f)
    finally:
        shutil.rmtree(d, ignore_errors=True)


def run_case(ctx, i, rng):
    verilog = (i % 5 == 3)
    if verilog:
        try:
            n = verilog_origin(ctx, rng)
        except Exception as ex:  # noqa: BLE001 - C06's business
            ctx.count("verilog_source_rejected:%s" % type(ex).__name__)
            return
        ctx.count("verilog_origin_netlists")
        # write-then-read in its own format: the re-read netlist is a faithful copy
        has_assign = any(c.name and c.name.startswith("SDN_VERILOG_ASSIGNMENT") for d_ in defs_of(n) for c in d_.children)
        if common.fenced(sys.modules[__name__], "comparer-depends-on-pin-order-within-wire"):
            ctx.count("fenced:verilog-roundtrip-compare")
        else:
            d = tempfile.mkdtemp(prefix="c20w_")
            try:
                g = os.path.join(d, "o.v")
                try:
                    sdn.compose(n, g)
                    back = sdn.parse(g)
                except Exception as ex:  # noqa: BLE001 - C04's business
                    ctx.count("verilog_roundtrip_failed:%s" % type(ex).__name__)
                    back = None
                if back is not None:
                    for x, y, tag in ((n, back, "verilog-roundtrip"), (back, n, "verilog-roundtrip-swapped")):
                        ex = run_compare(x, y)
                        ctx.count("positive_compares")
                        ctx.count("positive_verilog_roundtrip")
                        if ex is not None:
                            ctx.violation("rejects-faithful-copy:verilog-roundtrip",
                                          "compare(%s) raised %s: %s" % (tag, type(ex).__name__, str(ex)[:160]))
                            return
            finally:
                shutil.rmtree(d, ignore_errors=True)
        return compare_phase(ctx, i, rng, n, edif_roundtrip=False)
    n = gen_ir.generate(rng, profile="edif", ndefs=rng.randint(3, 7), share=0.5, max_children=4, outside=(i % 2 == 0))
    if plant_twins(rng, n):
        ctx.count("netlists_with_planted_same_named_twins")
    if i % 4 in (1, 2):
        ctx.count("siblings_differing_only_in_case", plant_case_twins(rng, n))
    if i % 3 == 0 or i % 4 == 2:
        ctx.count("instances_rewired_through_handles_then_repointed", handles_then_repoint(rng, n))
    if i % 4 == 3:
        # the empty string is a name like any other: one cell with contents is called ""
        cands_ = [d_ for d_ in defs_of(n) if (d_.children or d_.cables) and d_.name and d_.library is not None and
                  not any(x_.name == "" for x_ in d_.library.definitions)]
        if cands_:
            try:
                rng.choice(cands_).name = ""
                ctx.count("netlists_with_a_cell_named_by_the_empty_string")
            except ValueError:
                pass
    if i % 8 == 5:
        ctx.count("netlists_with_a_port_wider_than_256", plant_wide(rng, n))
    if i % 3 == 2:
        # a definition built stand-alone under the EDIF policy and then added to this DEFAULT-policy netlist
        g = gen_ir.graft_foreign_policy_definition(rng, n, "DEFAULT")
        if g is not None:
            n.top_instance.reference.create_child("graft_user", reference=g) if g.library is not None and rng.random() < 0.5 and \
                g.library is n.top_instance.reference.library else None
            ctx.count("netlists_with_a_definition_grafted_from_the_other_policy")
    # a history of REFUSED renames (a sibling's name is taken): the netlist is the same afterwards - also as the comparer's
    # second argument, where names are resolved by lookup
    refused = 0
    for d_ in defs_of(n):
        for sibs in (list(d_.cables), list(d_.children), list(d_.ports)):
            named = [x for x in sibs if x.name]
            if len(named) >= 2 and rng.random() < 0.4:
                x, y = rng.sample(named, 2)
                try:
                    x.name = y.name
                    x.name = x.name + "_undo"       # accepted after all (should not happen): keep the netlist as it is
                except ValueError:
                    refused += 1
    ctx.count("refused_renames_in_history", refused)
    return compare_phase(ctx, i, rng, n, edif_roundtrip=True)


def compare_phase(ctx, i, rng, n, edif_roundtrip):
    st = gen_ir.shape_stats(n)
    me = sys.modules[__name__]
    c0 = canon.canon_netlist(n)
    # positive side
    ex = run_compare(n, n)
    ctx.count("positive_compares")
    if ex is not None:
        ctx.violation("rejects-faithful-copy:itself", "compare(itself) raised %s: %s | %s" % (type(ex).__name__, str(ex)[:120], st))
        return
    b, _ = rebuild(n)
    dd = canon.first_diff(c0, canon.canon_netlist(b))
    if dd:
        ctx.count("rebuild_not_faithful")
        ctx.note_inconclusive("harness rebuild is not faithful: %s" % dd)
        return
    for x, y, tag in ((n, b, "rebuild"), (b, n, "rebuild-swapped")):
        ex = run_compare(x, y)
        ctx.count("positive_compares")
        if ex is not None:
            ctx.violation("rejects-faithful-copy:%s" % tag.split("-")[0], "compare(%s) raised %s: %s | %s" % (tag, type(ex).__name__, str(ex)[:120], st))
            return
    if common.fenced(me, "clone-not-registered-in-namespace"):
        ctx.count("fenced:compare-with-clone")
    else:
        c = n.clone()
        for x, y, tag in ((n, c, "clone"), (c, n, "clone-swapped")):
            ex = run_compare(x, y)
            ctx.count("positive_compares")
            if ex is not None:
                ctx.violation("clone-not-registered-in-namespace" if isinstance(ex, StopIteration) else "rejects-faithful-copy:clone",
                              "compare(%s) raised %s: %s | %s" % (tag, type(ex).__name__, str(ex)[:120], st))
                return
    # write-then-read in the netlist's own format (EDIF): the re-read netlist is a faithful copy
    d = tempfile.mkdtemp(prefix="c20_")
    try:
        src = back = None
        if not edif_roundtrip:
            pass
        elif i % 4 == 1:
            import glob
            fs = sorted(glob.glob(os.path.join(common.REPO, "example_netlists", "EDIF_netlists", "*.edf.zip")))
            fs = [f for f in fs if 0 < os.path.getsize(f) <= 4000]
            src = sdn.parse(fs[rng.randrange(len(fs))])
            tag0 = "bundled"
        else:
            src, _ = rebuild(n)
            tag0 = "generated"
        f = os.path.join(d, "x.edf")
        if src is not None:
            try:
                sdn.compose(src, f)
                back = sdn.parse(f)
            except Exception as ex:  # noqa: BLE001 - C03's business
                ctx.count("edif_roundtrip_failed:%s" % type(ex).__name__)
                back = None
        if back is not None:
            for x, y, tag in ((src, back, "edif-roundtrip"), (back, src, "edif-roundtrip-swapped")):
                ex = run_compare(x, y)
                ctx.count("positive_compares")
                ctx.count("positive_edif_roundtrip")
                if ex is not None:
                    ctx.violation("rejects-faithful-copy:edif-roundtrip:%s" % tag0, "compare(%s) raised %s: %s | %s" % (tag, type(ex).__name__, str(ex)[:160], st))
                    return
    finally:
        shutil.rmtree(d, ignore_errors=True)
    # negative side
    kinds = 0
    for mut in MUTATIONS:
        b, _ = rebuild(n)
        try:
            desc = mut(rng, b)
        except Exception as ex:  # noqa: BLE001
            ctx.count("mutation_failed:%s:%s" % (mut.__name__, type(ex).__name__))
            continue
        if desc is None:
            ctx.count("not_applicable:%s" % mut.__name__)
            continue
        c1 = canon.canon_netlist(b)
        if canon.first_diff(c0, c1) is None:
            ctx.count("mutation_invisible:%s" % mut.__name__)
            continue
        kinds += 1
        ctx.count("kind:%s" % mut.__name__)
        for x, y, order in ((n, b, "original-first"), (b, n, "mutant-first")):
            ex = run_compare(x, y)
            ctx.count("mutants_compared")
            if ex is None:
                ctx.violation("accepts-mutant:%s:%s" % (mut.__name__[2:], order), "compare() returned normally although %s (%s) | %s" % (desc, order, st))
            elif not isinstance(ex, AssertionError):
                ctx.count("rejected_by:%s" % type(ex).__name__)
    if i % 3 == 1:
        # a netlist need not have a top instance (a library-only netlist): element counts are compared all the same
        a2, _ = rebuild(n)
        b2, _ = rebuild(n)
        a2.top_instance = None
        b2.top_instance = None
        ex = run_compare(a2, b2)
        ctx.count("positive_compares")
        if ex is not None:
            ctx.violation("rejects-faithful-copy:no-top-instance", "compare(two rebuilds, top instance unset) raised %s: %s | %s" % (
                type(ex).__name__, str(ex)[:120], st))
            return
        for what in ("library added", "unused library dropped", "definition added"):
            b2, _ = rebuild(n)
            b2.top_instance = None
            if what == "library added":
                b2.create_library("extra_lib")
            elif what == "definition added":
                rng.choice(list(b2.libraries)).create_definition("extra_def")
            else:
                used = set(id(c.reference.library) for d_ in defs_of(b2) for c in d_.children if c.reference is not None)
                ls = [l for l in b2.libraries if id(l) not in used]
                if not ls:
                    continue
                b2.remove_library(rng.choice(ls))
            for x, y, order in ((a2, b2, "original-first"), (b2, a2, "mutant-first")):
                ex = run_compare(x, y)
                ctx.count("mutants_compared")
                ctx.count("mutants_compared_without_top_instance")
                if ex is None:
                    ctx.violation("accepts-mutant:no-top-instance:%s:%s" % (what.replace(" ", "-"), order),
                                  "compare() returned normally although %s (neither netlist has a top instance; %s) | %s" % (what, order, st))
    ctx.fingerprint((st,), kinds >= 12)
    if i < 2:
        ctx.sample({"shape": st, "mutation_kinds_applied": kinds})


def teardown(ctx):
    ctx.counters["mutation_kinds"] = len([k for k in ctx.counters if k.startswith("kind:")])


def probe_clone_namespace():
    from .c07 import probe_clone_namespace as p
    return p()


PROBES = {"clone-not-registered-in-namespace": probe_clone_namespace,
          "comparer-depends-on-pin-order-within-wire": probe_verilog_roundtrip_order}
