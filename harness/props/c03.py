"""C03 - EDIF write-then-read returns the same netlist.

Monitor: write->read differential.  canon_edif (exactly the attributes C03 lists) of the netlist before compose vs
of the re-parsed netlist; second, independent observer: the written file is read by an independent s-expression
reader and its inventory (ports, instances, per-bit nets with ordered port references, design) must equal what the
netlist dictates; third relation parse(compose(parse(f))) == parse(f) for bundled .edf files and for a second
round trip of every generated netlist."""
import os
import sys
import glob
import shutil
import tempfile

from .. import common

common.setup_env()
import spydrnet as sdn  # noqa: E402

from .. import gen_ir, canon, read_sexp, probes  # noqa: E402

PROP = "C03"
LEVEL = "exploration"
RULE = ("case = one generated EDIF-expressible netlist (all named, non-empty bundles, scalar bundles at 0, acyclic multi-library "
        "references with libraries/cells declared in shuffled order, bus nets with base != 0, unconnected pins, empty nets, "
        "1-wide array bundles) built under DEFAULT or EDIF policy -> compose -> parse -> compose -> parse; every 8th case a "
        "bundled .edf example instead; distinct = canonical-form hash; non-trivial = >=2 libraries or hierarchy depth>=2, and "
        "at least one bus net")
ASSUMPTIONS = ["port base index and library/cell order are not compared (not promised by C03)",
               "scalar net names do not end in [digits] (EDIF bus-bit convention)"]
REQUIRED = {"round_trips": 100, "nets_compared": 2000, "sexp_inventories_compared": 80, "case_only_renames_after_the_first_write": 200}


def plan(tier):
    if tier == "thorough":
        return {"cases": 16 * 400, "shards": 16, "shard_budget_s": 1800, "watchdog_s": 2700, "case_timeout_s": 300}
    return {"cases": 160, "shards": 4, "shard_budget_s": 240, "watchdog_s": 600}


def bundled_edf(max_size=9000):
    fs = sorted(glob.glob(os.path.join(common.REPO, "example_netlists", "EDIF_netlists", "*.edf.zip")))
    return [f for f in fs if 0 < os.path.getsize(f) <= max_size]


EXT_CYCLE = [".edf", ".edf", ".edif", ".EDF", ".edf", ".Edif", ".edn"]
_ext_turn = [0]


def roundtrip(n, d, tag):
    # every accepted spelling of the extension names the same format, for the writer and for the reader
    _ext_turn[0] += 1
    ext = EXT_CYCLE[_ext_turn[0] % len(EXT_CYCLE)]
    if ext == ".edn":
        ext = ".edf"        # (.edn is a reader-only spelling: written as .edf, renamed below)
        f = os.path.join(d, tag + ext)
        sdn.compose(n, f)
        g = os.path.join(d, tag + ".edn")
        os.replace(f, g)
        return g, sdn.parse(g)
    f = os.path.join(d, tag + ext)
    sdn.compose(n, f)
    return f, sdn.parse(f)


def strip_1wide(c):
    """drop array-ness of 1-wide ports (while the finding about them is open)."""
    for L in c["libs"].values():
        for C in L["cells"].values():
            C["ports"] = [p[:4] + ((p[4] if p[3] != 1 else None),) for p in C["ports"]]
    return c


def run_case(ctx, i, rng):
    me = sys.modules[__name__]
    d = tempfile.mkdtemp(prefix="c03_")
    try:
        if i % 8 == 7:
            files = bundled_edf(9000 if ctx.tier == "quick" else 60000)
            f = files[rng.randrange(len(files))]
            n1 = sdn.parse(f)
            c1 = canon.canon_edif(n1)
            try:
                f2, n2 = roundtrip(n1, d, "b")
            except Exception as ex:  # noqa: BLE001
                ctx.violation("bundled-roundtrip-raised:%s" % type(ex).__name__, "%s: %r at %s" % (os.path.basename(f), ex, probes.innermost_frame(ex)))
                return
            ctx.count("round_trips")
            dd = canon.first_diff(c1, canon.canon_edif(n2))
            if dd:
                ctx.violation("bundled-roundtrip-differs", "%s: %s" % (os.path.basename(f), dd))
                return
            ctx.count("nets_compared", sum(len(C["nets"]) for L in c1["libs"].values() for C in L["cells"].values()))
            ctx.fingerprint(("bundled", os.path.basename(f)), True)
            ctx.count("bundled_files")
            return
        policy = "EDIF" if i % 2 else "DEFAULT"
        sdn.namespace_manager.default = policy
        try:
            n = gen_ir.generate(rng, profile="edif", ndefs=rng.randint(2, 8), share=0.5, max_children=4, outside=(i % 3 == 0),
                                style="mixed" if i % 3 == 1 else "simple")
        finally:
            sdn.namespace_manager.default = "DEFAULT"
        if i % 6 == 2:
            # names are free text: bus names that contain the query wildcards * and ?, one a prefix of the other, the longer first
            for l_ in n.libraries:
                for d_ in l_.definitions:
                    buses = [c for c in d_.cables if len(c.wires) > 1]
                    if len(buses) >= 2 and rng.random() < 0.7:
                        a_, b_ = buses[0], buses[1]
                        ch = rng.choice("*?")
                        try:
                            base = "wb%d" % rng.randrange(100)
                            a_.name = base + ch + "x"
                            b_.name = base + ch
                            ctx.count("bus_names_with_wildcard_characters", 2)
                        except ValueError:
                            pass
        if i % 6 == 0:
            # names are free text: punctuation that is not legal in an EDIF identifier (library names included: a library that
            # holds hierarchy is then referenced by its generated identifier), leading digits, a lone percent sign
            pool = list(n.libraries) + [d_ for l in n.libraries for d_ in l.definitions]
            pool += [c for l in n.libraries for d_ in l.definitions for c in list(d_.children) + [x for x in d_.cables if len(x.wires) == 1 and x.is_scalar]]
            for k_, x_ in enumerate(rng.sample(pool, min(len(pool), rng.randint(3, 8)))):
                ch = rng.choice(["%", "-", ".", "$", "#", "@", "!", "+", "=", ",", ":", "~", "^", "&", "|", " ", "%%", "-%", "\t", "  "])
                form = rng.randrange(4)
                old_ = x_.name or "x"
                nm_ = (old_ + ch + "t%d" % k_, "%d%s%s" % (rng.randrange(10), ch, old_), ch + old_ + "_%d" % k_, "%s%d%s" % (old_, k_, ch))[form]
                try:
                    x_.name = nm_
                    ctx.count("names_with_punctuation")
                    if isinstance(x_, sdn.Library):
                        ctx.count("library_names_with_punctuation")
                except ValueError:
                    pass
            if rng.random() < 0.5:
                # a dozen or more siblings whose names sanitise to one identifier (the writer's conflict counter gains a digit)
                d_ = rng.choice([d_ for l in n.libraries for d_ in l.definitions])
                for ch in rng.sample("-/$ .+=!#@~%^&|:;,<>", rng.randint(12, 15)):
                    try:
                        d_.create_cable("fam%sx" % ch, wires=1)
                        ctx.count("siblings_sanitising_to_one_identifier")
                    except ValueError:
                        pass
        if i % 6 == 4:
            # very long names (around and beyond the 255-character identifier limit): the writer shortens the identifier,
            # the name itself must come back unchanged
            pool = [c for l in n.libraries for d_ in l.definitions for c in list(d_.children) + [x for x in d_.cables if len(x.wires) == 1 and x.is_scalar]]
            pool += [d_ for l in n.libraries for d_ in l.definitions]
            for k_, x_ in enumerate(rng.sample(pool, min(len(pool), 3))):
                ln = rng.choice([254, 255, 256, 300])
                base = "%s_L%d_" % (x_.name, k_)
                try:
                    x_.name = base + "y" * max(1, ln - len(base))
                    ctx.count("very_long_names")
                except ValueError:
                    pass
            # ... and a bus with such a name whose bits are numbered from 8 / 98 / 998 (the per-bit identifiers get longer suffixes)
            buses_ = [c for l in n.libraries for d_ in l.definitions for c in d_.cables if len(c.wires) >= 2 and c.name and not c.name.endswith("]")
                      and not any(isinstance(p_, sdn.InnerPin) for w_ in c.wires for p_ in w_.pins)]
            for c in rng.sample(buses_, min(len(buses_), 2)):
                try:
                    c.name = "%s_LB_" % c.name + "z" * rng.choice([240, 250, 252])
                    c.lower_index = rng.choice([8, 98, 998])
                    ctx.count("long_named_buses_with_a_base_index")
                except ValueError:
                    pass
        if i % 20 == 13:
            # a LARGE file (beyond 64 KiB of text): hundreds of renamed instances with string properties in the top cell
            topd_ = n.top_instance.reference
            leafs_ = [d_ for l in n.libraries for d_ in l.definitions if d_.is_leaf() and d_ is not topd_ and
                      (d_.library is topd_.library or True)]
            leafs_ = [d_ for d_ in leafs_ if d_.library is topd_.library] or []
            if leafs_:
                lf_ = leafs_[0]
                pad_ = "x" * rng.randint(1, 40)
                for k_ in range(rng.randint(650, 900)):
                    try:
                        c_ = topd_.create_child("blk/grp%04d/u%s" % (k_, pad_), reference=lf_)
                        c_["EDIF.properties"] = [{"identifier": "LOC", "value": "SLICE_X%dY%d %s" % (k_ % 50, k_ // 50, pad_)}]
                    except ValueError:
                        break
                ctx.count("large_files")
        if i % 5 == 1:
            # long string values (INIT strings, paths): around and beyond 240 characters
            insts_ = [c_ for l in n.libraries for d_ in l.definitions for c_ in d_.children]
            for c_ in rng.sample(insts_, min(len(insts_), 3)):
                ln_ = rng.choice([239, 240, 241, 300, 600])
                c_["EDIF.properties"] = list(c_.get("EDIF.properties", [])) + [
                    {"identifier": "INIT_STR", "value": "".join(rng.choice("0123456789ABCDEF ") for _ in range(ln_))}]
                ctx.count("long_string_property_values")
        st = gen_ir.shape_stats(n)
        c0 = canon.canon_edif(n, with_identifiers=False)
        has_bus = any(N[1] > 1 for L in c0["libs"].values() for C in L["cells"].values() for N in C["nets"].values())
        fence14 = common.fenced(me, "edif-1wide-array-port-written-as-scalar")
        try:
            f, n2 = roundtrip(n, d, "a")
        except Exception as ex:  # noqa: BLE001
            ctx.violation("roundtrip-raised:%s:%s" % (type(ex).__name__, (probes.innermost_frame(ex) or "").split(":")[-1]),
                          "%r at %s | policy=%s %s" % (ex, probes.innermost_frame(ex), policy, st))
            return
        ctx.count("round_trips")
        after = canon.canon_edif(n, with_identifiers=False)
        dd = canon.first_diff(c0, after)
        if dd:
            ctx.violation("compose-changed-netlist", "%s | policy=%s" % (dd, policy))
            return
        ci = canon.canon_edif(n)
        c2 = canon.canon_edif(n2)
        if fence14:
            ci, c2 = strip_1wide(ci), strip_1wide(c2)
        dd = canon.first_diff(ci, c2)
        if dd:
            key = "roundtrip-differs"
            if "/ports[" in dd and dd.rstrip().endswith(("True vs False", "False vs True")):
                key = "edif-1wide-array-port-written-as-scalar"
            ctx.violation(key, "%s | policy=%s %s" % (dd, policy, st))
            return
        ctx.count("nets_compared", sum(len(C["nets"]) for L in ci["libs"].values() for C in L["cells"].values()))
        # independent observer of the file
        try:
            inv_file = canon.sexp_inventory(read_sexp.design_of(read_sexp.parse(open(f).read())))
        except Exception as ex:  # noqa: BLE001
            ctx.violation("written-file-not-wellformed-sexp", "%r" % (ex,))
            return
        inv_net = canon.edif_inventory(n)
        dd = canon.first_diff(inv_net, inv_file)
        ctx.count("sexp_inventories_compared")
        if dd:
            ctx.violation("file-inventory-differs", "independent reading of the written file: %s | policy=%s" % (dd, policy))
            return
        # second round trip: parse(compose(parse(f))) == parse(f)
        try:
            f3, n3 = roundtrip(n2, d, "c")
        except Exception as ex:  # noqa: BLE001
            ctx.violation("second-roundtrip-raised:%s" % type(ex).__name__, "%r at %s" % (ex, probes.innermost_frame(ex)))
            return
        ctx.count("round_trips")
        dd = canon.first_diff(canon.canon_edif(n2), canon.canon_edif(n3))
        if dd:
            ctx.violation("second-roundtrip-differs", "%s | policy=%s" % (dd, policy))
            return
        # write again after an edit: new siblings INSERTED IN FRONT whose names collide (ignoring case) with identifiers
        # that the first write already assigned to later siblings
        edits = 0
        for l in list(n.libraries):
            for dd in list(l.definitions):
                for kind, coll, mk in (("cable", dd.cables, lambda nm: dd.add_cable(sdn.Cable(nm), position=0)),
                                       ("instance", dd.children, None),
                                       ("port", dd.ports, None)):
                    cands = [x for x in coll if x.name and x.name.swapcase() != x.name and
                             not any(y.name == x.name.swapcase() for y in coll) and
                             not (kind == "cable" and x.name.endswith("]"))]   # a scalar net named b[3] would read as a bus bit
                    if not cands or rng.random() < 0.6:
                        continue
                    x = rng.choice(cands)
                    nm = x.name.swapcase()
                    try:
                        if kind == "cable":
                            c_ = sdn.Cable(nm)
                            c_.create_wire()
                            dd.add_cable(c_, position=0)
                        elif kind == "instance":
                            i_ = sdn.Instance(nm)
                            i_.reference = x.reference
                            dd.add_child(i_, position=0)
                        else:
                            if len(dd.references):
                                continue
                            p_ = sdn.Port(nm, direction=sdn.IN)
                            p_.create_pin()
                            dd.add_port(p_, position=0)
                        edits += 1
                    except ValueError:
                        pass        # EDIF policy may refuse (identifier of the sibling equals the new name ignoring case)
        # ... and an ordinary replace-a-cell edit: an instance is removed and a fresh one with the same name is created
        for l in list(n.libraries):
            for dd in list(l.definitions):
                kids = [x for x in dd.children if x.name and x.reference is not None]
                if kids and rng.random() < 0.3:
                    x = rng.choice(kids)
                    nm_, ref_ = x.name, x.reference
                    for op in list(x.pins):
                        if op.wire is not None:
                            op.wire.disconnect_pin(op)
                    try:
                        dd.remove_child(x)
                        dd.create_child(nm_, reference=ref_)
                        edits += 1
                        ctx.count("instances_replaced_by_a_fresh_one_of_the_same_name")
                    except ValueError as ex:
                        ctx.violation("replace-edit-refused", "remove_child + create_child of the same name %r refused: %s" % (nm_[:30], str(ex)[:100]))
                        return
        # ... and buses edited between the two exports: the lowest bit removed, the wires put into the reverse order (the same
        #     wire objects, other positions)
        for l in list(n.libraries):
            for dd in list(l.definitions):
                for c_ in list(dd.cables):
                    if len(c_.wires) >= 2 and rng.random() < 0.25:
                        if rng.random() < 0.5 and len(c_.wires) >= 3:      # (a bus stays a bus: two or more wires remain)
                            w_ = c_.wires[0]
                            for p_ in list(w_.pins):
                                w_.disconnect_pin(p_)
                            c_.remove_wire(w_)
                        else:
                            c_.wires = list(c_.wires)[::-1]
                        edits += 1
                        ctx.count("buses_edited_between_two_exports")
        # ... and renames that change nothing but letter case (u1 -> U1): the identifier the first write recorded stays, the
        #     file now says (rename u1 "U1"), and U1 is what has to come back
        for l in list(n.libraries):
            for dd in list(l.definitions):
                for coll in (list(dd.children), [x for x in dd.cables if not (x.name or "").endswith("]")], list(dd.ports), [dd]):
                    for x in coll:
                        if x.name and "EDIF.identifier" in x and x.name.swapcase() != x.name and rng.random() < 0.15:
                            nm_ = rng.choice([x.name.swapcase(), x.name.upper(), x.name.lower()])
                            if nm_ == x.name:
                                continue
                            try:
                                x.name = nm_
                                edits += 1
                                ctx.count("case_only_renames_after_the_first_write")
                            except ValueError:
                                pass
        if edits:
            c4 = canon.canon_edif(n, with_identifiers=False)
            try:
                f4, n4 = roundtrip(n, d, "e")
            except Exception as ex:  # noqa: BLE001
                ctx.violation("write-after-edit-raised:%s:%s" % (type(ex).__name__, (probes.innermost_frame(ex) or "").split(":")[-1]),
                              "%r at %s | %d case-variant siblings inserted in front after the first write | policy=%s" % (
                                  str(ex)[:120], probes.innermost_frame(ex), edits, policy))
                return
            ctx.count("round_trips")
            ctx.count("write_after_edit_round_trips")
            dd_ = canon.first_diff(c4, canon.canon_edif(n4, with_identifiers=False))
            if dd_:
                ctx.violation("write-after-edit-differs", "%s | policy=%s" % (dd_, policy))
                return
        ctx.fingerprint(canon.canon_edif(n, with_identifiers=False), (st["libs"] >= 2 or st["depth"] >= 2) and has_bus)
        if i < 2:
            ctx.sample({"policy": policy, "shape": st, "file_head": open(f).read()[:600]})
    finally:
        shutil.rmtree(d, ignore_errors=True)


def probe_1wide():
    """S14: a 1-wide array port is written as a scalar port, array-ness is lost on re-read."""
    d = tempfile.mkdtemp(prefix="c03p_")
    try:
        n = sdn.Netlist("n")
        lib = n.create_library("work")
        top = lib.create_definition("top")
        p = top.create_port("p", pins=1, direction=sdn.IN)
        p.is_scalar = False
        n.top_instance = top
        n.top_instance.name = "t"
        f, n2 = roundtrip(n, d, "p")
        return n2.libraries[0].definitions[0].ports[0].is_array is False
    finally:
        shutil.rmtree(d, ignore_errors=True)


PROBES = {"edif-1wide-array-port-written-as-scalar": probe_1wide}
