"""C05 - the EDIF reader builds exactly the design the file describes.

Monitor: reader vs abstract model.  Random abstract designs (model.py) are rendered to EDIF text by an independent
writer with randomised legal style; the netlist returned by sdn.parse is converted to the same vocabulary and must
equal model.expected(design) (libraries, cells, ports with direction/array size, instances with cellRef/libraryRef
target and typed properties, nets with every portRef on the right pin position in file order, bus nets merged with
bit i at position i-base, design -> top, rename -> identifier + original name) and be well-formed/self-contained.
Bundled .edf files: the model comes from the independent s-expression reader."""
import os
import sys
import glob
import shutil
import tempfile
import zipfile

from .. import common

common.setup_env()
import spydrnet as sdn  # noqa: E402
from spydrnet.ir.outerpin import OuterPin as BaseOuterPin  # noqa: E402

from .. import model, write_edif, read_sexp, canon, wf, probes  # noqa: E402

PROP = "C05"
LEVEL = "exploration"
RULE = ("case = one random abstract design (1-3 libraries incl. 'external', 2-8 cells, bus/array/scalar ports, instances with "
        "typed properties, scalar nets and bus nets given as name[i]/id_i_ bit nets in random order with gaps, rename "
        "constructs, identifier-case variation on references, comments, keyword case, whitespace) rendered by the independent "
        "writer -> sdn.parse -> comparison with the model; every 10th case a bundled .edf file with the model derived by the "
        "independent s-expression reader; distinct = text hash; non-trivial = design has >=1 bus net with a gap or out-of-order "
        "bits, or a cross-library reference")
ASSUMPTIONS = ["port base index is not compared (not in the statement)",
               "only constructs the reader implements are emitted (others belong to C15)"]
REQUIRED = {"texts_parsed": 150, "nets_compared": 1500, "portrefs_compared": 4000,
            "designs_whose_top_identifier_is_in_two_libraries": 10, "designs_with_bracketed_bus_base_name": 20}
DIRS = {"IN": "INPUT", "OUT": "OUTPUT", "INOUT": "INOUT", "UNDEFINED": None}


def plan(tier):
    if tier == "thorough":
        return {"cases": 16 * 900, "shards": 16, "shard_budget_s": 1800, "watchdog_s": 2700, "case_timeout_s": 300}
    return {"cases": 240, "shards": 4, "shard_budget_s": 240, "watchdog_s": 600}


def low(x):
    return x.lower() if isinstance(x, str) else x


def from_netlist(n, ctx=None):
    t = n.top_instance
    out = {"name": n.name, "libs": {},
           "top": None if t is None else (low(t.reference["EDIF.identifier"]), low(t.reference.library["EDIF.identifier"]), t.name)}
    for l in n.libraries:
        cells = {}
        for d in l.definitions:
            ports = [(p.name, p["EDIF.identifier"], DIRS[p.direction.name], len(p.pins), p.is_array) for p in d.ports]
            insts = {}
            for i in d.children:
                r = i.reference
                insts[low(i["EDIF.identifier"])] = (i.name, low(r["EDIF.identifier"]), low(r.library["EDIF.identifier"]),
                                                    list(i.get("EDIF.properties", []) or []))
            nets = {}
            for c in d.cables:
                bits = []
                for w in c.wires:
                    j = []
                    for p in w.pins:
                        if ctx is not None:
                            ctx.count("portrefs_compared")
                        if isinstance(p, BaseOuterPin):
                            ip = p.inner_pin
                            j.append((low(p.instance["EDIF.identifier"]), low(ip.port["EDIF.identifier"]), list(ip.port.pins).index(ip)))
                        else:
                            j.append((None, low(p.port["EDIF.identifier"]), list(p.port.pins).index(p)))
                    bits.append(j)
                nets[low(c["EDIF.identifier"])] = (c.name, len(c.wires), c.lower_index, c.is_array, bits)
            cells[low(d["EDIF.identifier"])] = {"name": d.name, "ports": ports, "insts": insts, "nets": nets}
        out["libs"][low(l["EDIF.identifier"])] = {"name": l.name, "cells": cells}
    return out


def expected_from_sexp(design):
    """model.expected for a design read by read_sexp (bundled files)."""
    def nm(nd):
        return nd[1] if nd[1] is not None else nd[0]
    out = {"name": nm(design["name"]), "libs": {}, "top": None}
    if design["design"]:
        dn, cell, lib = design["design"]
        out["top"] = (cell.lower(), lib.lower() if lib else None, nm(dn))
    import re
    for L in design["libs"]:
        cells = {}
        for C in L["cells"]:
            ports = [(nm(p["name"]), p["name"][0], p["dir"], p["width"], p["array"]) for p in C["ports"]]
            insts = {}
            for i in C["insts"]:
                props = []
                for p in i["props"]:
                    d = {"identifier": p[0][0]}
                    if p[0][1] is not None:
                        d["original_identifier"] = p[0][1]
                    d["value"] = int(p[2]) if p[1] == "number" else p[2]
                    props.append(d)
                insts[i["name"][0].lower()] = (nm(i["name"]), i["cell"].lower(), (i["lib"] or L["name"][0]).lower(), props)
            nets, buses = {}, {}
            for N in C["nets"]:
                j = [(a.lower() if a else None, b.lower(), c or 0) for a, b, c in N["joined"]]
                ident, orig = N["name"]
                m1 = re.match(r"^(.*)_(\d+)_$", ident)
                m2 = re.match(r"^(.*)\[(\d+)\]$", orig) if orig else None
                if m1 and m2 and not (ident.startswith("&_") and m1.group(1).rsplit("_", 1)[-1] != ""):
                    buses.setdefault((m1.group(1), m2.group(1)), {})[int(m2.group(2))] = j
                else:
                    nets[ident.lower()] = (nm(N["name"]), 1, 0, False, [j])
            ambiguous = False
            for (bid, bname), bits in buses.items():
                lo, hi = min(bits), max(bits)
                if bid.lower() in nets:
                    ambiguous = True      # a scalar net and a bus share the identifier: outside the model
                nets[bid.lower()] = (bname, hi - lo + 1, lo, True, [bits.get(k, []) for k in range(lo, hi + 1)])
            cells[C["name"][0].lower()] = {"name": nm(C["name"]), "ports": ports, "insts": insts, "nets": None if ambiguous else nets}
        out["libs"][L["name"][0].lower()] = {"name": nm(L["name"]), "cells": cells}
    return out


def compare(ctx, exp, n, what):
    errs = wf.self_contained(n, strict_refsets=True)
    if errs:
        return "reader-output-ill-formed:%s" % errs[0][0], "%s: %s" % (what, errs[0][1])
    got = from_netlist(n, ctx)
    for lk, L in exp["libs"].items():
        for ck, C in L["cells"].items():
            if C["nets"] is None and lk in got["libs"] and ck in got["libs"][lk]["cells"]:
                got["libs"][lk]["cells"][ck]["nets"] = None
                ctx.count("cells_with_ambiguous_bus_skipped")
    ctx.count("nets_compared", sum(len(C["nets"] or ()) for L in exp["libs"].values() for C in L["cells"].values()))
    dd = canon.first_diff(exp, got)
    if dd:
        part = "other"
        for k in ("/top", "/nets/", "/ports", "/insts/", "/name"):
            if k in dd:
                part = k.strip("/")
                break
        return "reader-differs-from-model:%s" % part, "%s: %s" % (what, dd)
    return None


def run_case(ctx, i, rng):
    me = sys.modules[__name__]
    d = tempfile.mkdtemp(prefix="c05_")
    try:
        if i % 10 == 9:
            fs = sorted(glob.glob(os.path.join(common.REPO, "example_netlists", "EDIF_netlists", "*.edf.zip")))
            fs = [f for f in fs if 0 < os.path.getsize(f) <= (9000 if ctx.tier == "quick" else 60000)]
            f = fs[rng.randrange(len(fs))]
            with zipfile.ZipFile(f) as z:
                name = z.namelist()[0]
                text = z.read(name).decode()
            n = sdn.parse(f)
            ctx.count("texts_parsed")
            ctx.count("bundled_files")
            exp = expected_from_sexp(read_sexp.design_of(read_sexp.parse(text)))
            r = compare(ctx, exp, n, os.path.basename(f))
            if r:
                ctx.violation("bundled:" + r[0], r[1])
            ctx.fingerprint(("bundled", os.path.basename(f)), True)
            return
        design = model.gen_design(rng)
        design["_top_ref"] = design["top"]
        ids = [c["name"][0].lower() for L in design["libs"] for c in L["cells"]]
        if len(ids) != len(set(ids)):
            ctx.count("designs_with_a_cell_identifier_in_two_libraries")
            if ids.count(design["top"][0].lower()) > 1:
                ctx.count("designs_whose_top_identifier_is_in_two_libraries")
        if any(N["base"] and "[" in N["base"][1] for L in design["libs"] for c in L["cells"] for N in c["nets"]):
            ctx.count("designs_with_bracketed_bus_base_name")
        if i % 5 == 0:
            design["_top_ref"] = (design["top"][0].swapcase(), design["top"][1].swapcase())
        text = write_edif.write(design, rng, style=(i % 7 != 0))
        f = os.path.join(d, "x.edf")
        with open(f, "w") as fh:
            fh.write(text)
        f = common.input_variant(f, rng)       # (.edf / .edif / .edn, any letter case, or a single-file zip archive)
        ctx.count("input_name:" + "".join(os.path.splitext(f)[1:]).lower() if not f.endswith(".zip") else "input_name:zip")
        try:
            n = sdn.parse(f)
        except Exception as ex:  # noqa: BLE001
            fr = probes.innermost_frame(ex) or ""
            ctx.violation("reader-rejects-supported-text:%s:%s" % (type(ex).__name__, fr.split(":")[-1]),
                          "%s at %s | text head: %s" % (str(ex)[:160], fr, text[:200].replace("\n", " ")), {"text": text[:6000]})
            return
        ctx.count("texts_parsed")
        exp = model.expected(design)
        r = compare(ctx, exp, n, "generated text")
        if r:
            ctx.violation(r[0], r[1], {"text": text[:6000]})
            return
        nets = [N for L in design["libs"] for C in L["cells"] for N in C["nets"]]
        bus_idx = {}
        for N in nets:
            if N["base"]:
                bus_idx.setdefault(N["base"], []).append(N["index"])
        gap = any(sorted(v) != list(range(min(v), max(v) + 1)) or v != sorted(v) for v in bus_idx.values())
        cross = any(i_["lib"] != L["name"][0] for L in design["libs"] for C in L["cells"] for i_ in C["insts"])
        ctx.fingerprint(text, gap or cross)
        if i < 2:
            ctx.sample({"text_head": text[:700]})
    finally:
        shutil.rmtree(d, ignore_errors=True)


PROBES = {}
