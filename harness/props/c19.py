"""C19 - listeners are told of every structural change before it happens.

Monitors:
 (a) shadow model updated ONLY from CallbackListener notifications, compared with the real universe after every
     outermost call (accepted, refused or crashed): containment (as sets), wire -> pins, instance references,
     top instances, data dictionaries;
 (b) pre-state predicate evaluated inside every notification: the announced change is not yet visible through
     the read API;
 (c) listener differential: the same seeded history with 1-3 extra passive listeners (registered in different
     orders, one of them registered/deregistered mid-history) gives the same outcome sequence and final state."""
from .. import common

common.setup_env()
import sys
import collections  # noqa: E402
import random  # noqa: E402
import spydrnet as sdn  # noqa: E402
from spydrnet.callback.callback_listener import CallbackListener  # noqa: E402
from spydrnet.ir.outerpin import OuterPin as BaseOuterPin  # noqa: E402
from spydrnet.ir.definition import Definition as BaseDefinition  # noqa: E402
from spydrnet.ir.netlist import Netlist as BaseNetlist  # noqa: E402
from spydrnet.ir.library import Library as BaseLibrary  # noqa: E402
from spydrnet.ir.port import Port as BasePort  # noqa: E402
from spydrnet.ir.cable import Cable as BaseCable  # noqa: E402
from spydrnet.ir.wire import Wire as BaseWire  # noqa: E402
from spydrnet.ir.instance import Instance as BaseInstance  # noqa: E402
from spydrnet.ir.innerpin import InnerPin as BaseInnerPin  # noqa: E402
from spydrnet.ir.pin import Pin as BasePin  # noqa: E402

# what each announcement's arguments must be for a listener to know WHICH change is meant
ARG_TYPES = {"libs": (BaseNetlist, BaseLibrary), "defs": (BaseLibrary, BaseDefinition), "ports": (BaseDefinition, BasePort),
             "cables": (BaseDefinition, BaseCable), "children": (BaseDefinition, BaseInstance), "pins": (BasePort, BaseInnerPin),
             "wires": (BaseCable, BaseWire)}

from .. import probes, gen_ops  # noqa: E402

PROP = "C19"
LEVEL = "exploration"
RULE = ("case = one 'listen' history (no clone ops) of 60-160 calls incl. refused calls, bulk and compound ops, with a "
        "shadow listener registered; every 4th case is a 3-run listener differential; distinct = (op,outcome) sequence "
        "hash; non-trivial = >=100 notifications mirrored incl. >=1 implicit disconnect and >=1 refused call")
ASSUMPTIONS = ["containment order is not mirrored (notifications carry no position)",
               "a second identical disconnect notification inside one outermost call is tolerated and counted",
               "outer pins are identified by the stored pin object resolved through the read API at notification time"]
REQUIRED = {"notifications": 20000, "mirror_compares": 5000, "prestate_checks": 10000, "differential_runs": 20}
BADPOS = "non-integer-position-fails-late"
PROBES = {BADPOS: lambda: gen_ops.probe_bad_position("name")}
FENCES = ()


def plan(tier):
    if tier == "thorough":
        return {"cases": 16 * 700, "shards": 16, "shard_budget_s": 1500, "watchdog_s": 2400}
    return {"cases": 300, "shards": 4, "shard_budget_s": 200, "watchdog_s": 600}


def resolve(pin):
    if isinstance(pin, BaseOuterPin):
        inst, ip = pin.instance, pin.inner_pin
        if inst is not None and ip is not None and ip in inst.pins:
            return inst.pins[ip]
    return pin


class Shadow(CallbackListener):
    def __init__(self, ctx):
        self.ctx = ctx
        self.contain = {}      # (kind, id(parent)) -> set(id(child))
        self.wpins = {}        # id(wire) -> set(id(resolved pin))
        self.ref = {}          # id(inst) -> id(def)|None
        self.top = {}          # id(netlist) -> id(inst)|None
        self.data = {}         # id(elem) -> dict
        self.keep = []         # strong refs so ids stay unique
        self.pre_fail = None
        self.n = 0
        self.call_disc = set()
        self.implicit_disc = 0
        super().__init__()

    # helpers
    def _note(self):
        self.n += 1

    def _pf(self, what, ok):
        self.ctx.count("prestate_checks")
        if not ok and self.pre_fail is None:
            self.pre_fail = what

    def _types_ok(self, what, pairs):
        bad = [(type(x).__name__, getattr(t, "__name__", "Definition or None")) for x, t in pairs if not isinstance(x, t)]
        self.ctx.count("announcement_argument_type_checks")
        if bad and self.pre_fail is None:
            self.pre_fail = "arguments of the %s announcement do not identify the change: got %s where %s belongs" % (what, bad[0][0], bad[0][1])
        return not bad

    def _add(self, kind, parent, child, backptr, listing):
        if not self._types_ok(kind + " add", zip((parent, child), ARG_TYPES[kind])):
            return
        self._note()
        self.keep += [parent, child]
        self._pf("%s announced but already visible" % kind, getattr(child, backptr) is not parent and not any(x is child for x in listing))
        self.contain.setdefault((kind, id(parent)), set()).add(id(child))

    def _rem(self, kind, parent, child, backptr, listing):
        if not self._types_ok(kind + " remove", zip((parent, child), ARG_TYPES[kind])):
            return
        self._note()
        self._pf("%s removal announced but already done" % kind, getattr(child, backptr) is parent and any(x is child for x in listing))
        self.contain.setdefault((kind, id(parent)), set()).discard(id(child))

    # creation
    def create_netlist(self, x): self._note(); self.keep.append(x)
    def create_library(self, x): self._note(); self.keep.append(x)
    def create_definition(self, x): self._note(); self.keep.append(x)
    def create_port(self, x): self._note(); self.keep.append(x)
    def create_cable(self, x): self._note(); self.keep.append(x)
    def create_instance(self, x): self._note(); self.keep.append(x)

    # containment
    def netlist_add_library(self, n, l): self._add("libs", n, l, "netlist", getattr(n, "libraries", ()))
    def netlist_remove_library(self, n, l): self._rem("libs", n, l, "netlist", getattr(n, "libraries", ()))
    def library_add_definition(self, l, d): self._add("defs", l, d, "library", getattr(l, "definitions", ()))
    def library_remove_definition(self, l, d): self._rem("defs", l, d, "library", getattr(l, "definitions", ()))
    def definition_add_port(self, d, p): self._add("ports", d, p, "definition", getattr(d, "ports", ()))
    def definition_remove_port(self, d, p):
        # announced BEFORE it takes effect: the instances of the definition still carry the outer pins of this port's pins
        if isinstance(d, BaseDefinition) and isinstance(p, BasePort):
            self._pf("port removal announced after the instances already lost its pins",
                     all(ip in i.pins for i in d.references for ip in p.pins))
        self._rem("ports", d, p, "definition", getattr(d, "ports", ()))
    def definition_add_cable(self, d, c): self._add("cables", d, c, "definition", getattr(d, "cables", ()))
    def definition_remove_cable(self, d, c): self._rem("cables", d, c, "definition", getattr(d, "cables", ()))
    def definition_add_child(self, d, i): self._add("children", d, i, "parent", getattr(d, "children", ()))
    def definition_remove_child(self, d, i): self._rem("children", d, i, "parent", getattr(d, "children", ()))
    def port_add_pin(self, p, x): self._add("pins", p, x, "port", getattr(p, "pins", ()))
    def port_remove_pin(self, p, x):
        if isinstance(p, BasePort) and isinstance(x, BaseInnerPin) and p.definition is not None:
            self._pf("pin removal announced after the instances already lost its outer pin", all(x in i.pins for i in p.definition.references))
        self._rem("pins", p, x, "port", getattr(p, "pins", ()))
    def cable_add_wire(self, c, w): self._add("wires", c, w, "cable", getattr(c, "wires", ()))
    def cable_remove_wire(self, c, w): self._rem("wires", c, w, "cable", getattr(c, "wires", ()))

    # connections
    def wire_connect_pin(self, w, pin):
        if not self._types_ok("connect", [(w, BaseWire), (pin, BasePin)]):
            return
        self._note()
        r = resolve(pin)
        self.keep += [w, r]
        self._pf("connect announced but pin already reports a wire", r.wire is None)
        self.wpins.setdefault(id(w), set()).add(id(r))

    def wire_disconnect_pin(self, w, pin):
        if not self._types_ok("disconnect", [(w, BaseWire), (pin, BasePin)]):
            return
        self._note()
        r = resolve(pin)
        key = (id(w), id(r))
        if key in self.call_disc:
            self.ctx.count("duplicate_disconnect_notifications")
        else:
            self.call_disc.add(key)
            self._pf("disconnect announced after the pin left the wire's list", r.wire is w and any(q is r for q in w.pins))
        self.wpins.setdefault(id(w), set()).discard(id(r))

    def instance_reference(self, i, ref):
        if not self._types_ok("reference", [(i, BaseInstance), (ref, (BaseDefinition, type(None)))]):
            return
        self._note()
        self.keep += [i, ref]
        self.ref[id(i)] = None if ref is None else id(ref)

    def netlist_top_instance(self, n, inst):
        self._note()
        if isinstance(inst, BaseDefinition):
            return      # a second notification with the wrapping instance follows
        self.keep += [n, inst]
        self.top[id(n)] = None if inst is None else id(inst)

    # data
    def dictionary_set(self, e, k, v):
        self._note()
        self.keep.append(e)
        self.data.setdefault(id(e), {})[k] = v

    def _data_removal(self, e, k, how):
        self._note()
        m = self.data.setdefault(id(e), {})
        # the mirror built from the earlier announcements and the element itself agree on whether the key is there NOW; if the
        # mirror has already lost it, this change was announced before (one change, two announcements)
        self._pf("%s of a data key announced although an earlier announcement already removed it from the mirror" % how,
                 (k in m) == (k in e))
        m.pop(k, None)

    def dictionary_delete(self, e, k):
        self._data_removal(e, k, "delete")

    def dictionary_pop(self, e, k):
        self._data_removal(e, k, "pop")

    # comparison with the real universe
    def compare(self, u):
        def cs(kind, parent, real):
            want = set(id(x) for x in real)
            have = self.contain.get((kind, id(parent)), set())
            if want != have:
                return "%s of %s: real has %d, mirror has %d (missing in mirror %d, extra in mirror %d)" % (
                    kind, type(parent).__name__, len(want), len(have), len(want - have), len(have - want))
        for n in u.netlists:
            e = cs("libs", n, n.libraries)
            if e:
                return "containment", e
            t = n.top_instance
            if self.top.get(id(n)) != (None if t is None else id(t)):
                return "top", "top instance differs from the mirror"
        for l in u.libs:
            e = cs("defs", l, l.definitions)
            if e:
                return "containment", e
        for d in u.defs:
            for kind, real in (("ports", d.ports), ("cables", d.cables), ("children", d.children)):
                e = cs(kind, d, real)
                if e:
                    return "containment", e
        for p in u.ports:
            e = cs("pins", p, p.pins)
            if e:
                return "containment", e
        for c in u.cables:
            e = cs("wires", c, c.wires)
            if e:
                return "containment", e
        for w in u.wires:
            want = set(id(p) for p in w.pins)
            have = self.wpins.get(id(w), set())
            if want != have:
                return "connections", "wire lists %d pins, mirror %d (mirror-only %d, real-only %d)" % (
                    len(want), len(have), len(have - want), len(want - have))
        # the pin's side of the same relation: a mirror built from the announcements knows for every pin which wire it is on
        on = {}
        wid = set(id(w) for w in u.wires)
        for w in u.wires:
            for pid in self.wpins.get(id(w), ()):
                on[pid] = w
        for p in list(u.ipins) + [op for i in u.insts for op in i.pins.values()]:
            rw = p.wire
            mw = on.get(id(p))
            if rw is not mw and (rw is None or mw is None or id(rw) in wid):
                return "connections", "a %s reports wire %s, the mirror has it on %s" % (
                    type(p).__name__, "none" if rw is None else "W%x" % (id(rw) & 0xffff), "none" if mw is None else "W%x" % (id(mw) & 0xffff))
        for i in u.insts:
            r = i.reference
            if self.ref.get(id(i)) != (None if r is None else id(r)):
                return "reference", "instance reference differs from the mirror"
        def typed(v):
            # 1, True and 1.0 compare equal and are different data (they are written differently): compare with the types
            if isinstance(v, dict):
                return ("dict", sorted((repr(k_), typed(w_)) for k_, w_ in v.items()))
            if isinstance(v, (list, tuple)):
                return (type(v).__name__, [typed(w_) for w_ in v])
            return (type(v).__name__, v if isinstance(v, (str, int, float, bool, type(None))) else id(v))
        for x in u.netlists + u.libs + u.defs + u.ports + u.cables + u.insts:
            real = {k: x[k] for k in x}
            mir = self.data.get(id(x), {})
            if real != mir or typed(real) != typed(mir):
                ks = set(real) ^ set(mir)
                return "data", "data of %s differs from the mirror (keys %s)" % (type(x).__name__, sorted(ks) or "values (or their types)")
        return None


class C19Monitor:
    def __init__(self, ctx, shadow):
        self.ctx = ctx
        self.sh = shadow
        self.refused = 0

    def pre(self, eng, op):
        self.sh.call_disc = set()
        self.sh.pre_fail = None
        self.n0 = self.sh.n
        self.wires_before = sum(len(w.pins) for w in eng.u.wires)

    def post(self, eng, op, outcome, exc, result):
        ctx, sh = self.ctx, self.sh
        ctx.count("calls_" + outcome)
        ctx.count("notifications", sh.n - self.n0)
        if outcome != "ok":
            self.refused += 1
        if op.label not in ("Wire.disconnect_pin", "Wire.disconnect_pins_from") and outcome == "ok" and \
                sum(len(w.pins) for w in eng.u.wires) < self.wires_before:
            sh.implicit_disc += 1
            ctx.count("implicit_disconnects_mirrored")
        if sh.pre_fail is not None:
            ctx.violation("prestate:%s@%s" % (sh.pre_fail, op.label), "%s during %s (%s, %s); log=%s" % (
                sh.pre_fail, op.desc, op.strat, outcome, eng.log[-6:]))
            return True
        ctx.count("mirror_compares")
        d = sh.compare(eng.u)
        if d is not None:
            ctx.violation("mirror-%s@%s:%s" % (d[0], op.label, outcome), "%s after %s (%s, %s%s); log=%s" % (
                d[1], op.desc, op.strat, outcome, "" if exc is None else " " + type(exc).__name__, eng.log[-6:]))
            return True
        return False


class Passive(CallbackListener):
    """Extra listener that only counts (overrides every hook so that it is registered everywhere)."""

    ret = None

    def __init__(self):
        self.n = 0
        self.per = collections.Counter()
        super().__init__()


class WireBudget(CallbackListener):
    """A vetoing listener: no cable may be given more than `limit` wires over its life (the 5th addition is refused)."""

    def __init__(self, limit=4):
        self.limit = limit
        self.seen = collections.Counter()
        self.vetoes = 0
        super().__init__()

    def cable_add_wire(self, cable, wire):
        self.seen[id(cable)] += 1
        if self.seen[id(cable)] > self.limit:
            self.vetoes += 1
            raise ValueError("listener veto: cable would get wire number %d" % self.seen[id(cable)])


def _mk_passive():
    names = [n for n in dir(CallbackListener) if not n.startswith("_") and not n.startswith(("register", "deregister"))]

    def mk(name):
        def f(self, *a, **k):
            self.n += 1
            self.per[name] += 1
            return self.ret         # (what a listener returns is nobody's business: a "dirty" flag, a count)
        f.__name__ = name
        return f
    for n in names:
        if callable(getattr(CallbackListener, n)):
            setattr(Passive, n, mk(n))


_mk_passive()
HOOK_NAMES = [n for n in dir(CallbackListener) if not n.startswith("_") and not n.startswith(("register", "deregister")) and
              callable(getattr(CallbackListener, n))]


def make_partial(rng):
    """A listener class that overrides only SOME hooks (as user listeners do); counts per hook."""
    chosen = sorted(rng.sample(HOOK_NAMES, rng.randint(1, max(1, len(HOOK_NAMES) // 2))))

    class Partial(CallbackListener):
        def __init__(self):
            self.per = collections.Counter()
            self.n = 0
            super().__init__()

    def mk(name):
        def f(self, *a, **k):
            self.per[name] += 1
            self.n += 1
        f.__name__ = name
        return f
    for nm in chosen:
        setattr(Partial, nm, mk(nm))
    Partial.chosen = chosen
    return Partial


def canon_state(u):
    """Address-free summary of the final state (pool indices instead of ids)."""
    idx = {}
    for k in ("netlists", "libs", "defs", "ports", "cables", "insts", "ipins", "wires"):
        for j, x in enumerate(getattr(u, k)):
            idx[id(x)] = (k, j)
    out = []
    for n in u.netlists:
        out.append(("n", [idx.get(id(l)) for l in n.libraries], idx.get(id(n.top_instance)), sorted(n.data.items(), key=repr).__repr__()))
    for l in u.libs:
        out.append(("l", [idx.get(id(d)) for d in l.definitions], repr(sorted(l.data.items(), key=repr))))
    for d in u.defs:
        out.append(("d", [idx.get(id(x)) for x in d.ports], [idx.get(id(x)) for x in d.cables], [idx.get(id(x)) for x in d.children],
                    repr(sorted(d.data.items(), key=repr))))
    for w in u.wires:
        out.append(("w", [idx.get(id(p)) if not isinstance(p, BaseOuterPin) else ("op", idx.get(id(p.instance)), idx.get(id(p.inner_pin))) for p in w.pins]))
    for i in u.insts:
        out.append(("i", idx.get(id(i.reference)), idx.get(id(i.parent))))
    return out


def one_run(seed_rng_state, nsteps, policy, extra):
    import random
    rng = random.Random()
    rng.setstate(seed_rng_state)
    listeners = []
    partial = None
    if extra:
        listeners = [Passive() for _ in range(extra)]
        if extra >= 2:
            listeners[0].ret = True       # the listener that was registered first answers every announcement with a value
        partial = make_partial(random.Random(extra * 7919 + nsteps))()
    eng = gen_ops.Engine(rng, "listen", policy, fences=tuple(FENCES) + (("bad_position",) if common.fenced(sys.modules[__name__], BADPOS) else ()))
    toggled = Passive() if extra else None
    state = {"on": bool(toggled)}
    if toggled:
        toggled.deregister_all_listeners()
        state["on"] = False

    class Tog:
        def pre(self, e, op):
            if toggled and len(e.log) % 17 == 5 and not state["on"]:
                toggled.register_all_listeners()
                state["on"] = True
            if toggled and len(e.log) % 17 == 11 and state["on"]:
                toggled.deregister_all_listeners()
                state["on"] = False

        def post(self, *a):
            return False
    problems = []
    try:
        gen_ops.run_history(eng, nsteps, [Tog()])
    finally:
        for l in listeners + ([toggled] if toggled and state["on"] else []):
            try:
                l.deregister_all_listeners()
            except Exception as ex:  # noqa: BLE001
                problems.append("deregister_all_listeners() of a registered listener raised %r at %s" % (ex, probes.innermost_frame(ex)))
                # leave no listener behind for the next case
                from spydrnet.global_state import global_callback as gcb
                for name in dir(gcb):
                    c_ = getattr(gcb, name)
                    if name.startswith("_container_") and isinstance(c_, list):
                        c_[:] = [m_ for m_ in c_ if getattr(m_, "__self__", None) is not l]
    if partial is not None:
        try:
            partial.deregister_all_listeners()
        except Exception as ex:  # noqa: BLE001
            problems.append("deregister_all_listeners() of a listener that overrides only %s raised %r at %s" % (partial.chosen[:4], ex, probes.innermost_frame(ex)))
        if listeners:
            for nm in partial.chosen:
                if partial.per[nm] != listeners[0].per[nm]:
                    problems.append("a listener overriding only some hooks was told %d x %s, a listener overriding all hooks %d x" % (
                        partial.per[nm], nm, listeners[0].per[nm]))
                    break
    if len(set(l.n for l in listeners)) > 1:
        problems.append("listeners registered for the whole run were told different numbers of changes: %s" % [l.n for l in listeners])
    return [(e[1], e[2], e[3]) for e in eng.log], canon_state(eng.u), sum(l.n for l in listeners), problems


def run_case(ctx, i, rng):
    policy = "EDIF" if i % 3 == 1 else "DEFAULT"
    sdn.namespace_manager.default = policy
    try:
        if i % 4 == 3:
            st = rng.getstate()
            n = rng.randint(40, 120)
            a1 = one_run(st, n, policy, 0)
            a2 = one_run(st, n, policy, 0)
            b = one_run(st, n, policy, 1 + i % 3)
            ctx.count("differential_runs")
            if b[3]:
                ctx.violation("listener-bookkeeping:%s" % ("deregistration-raised" if "raised" in b[3][0] else "unequal-notification-counts"
                                                           if "different numbers" in b[3][0] else "partial-listener-told-differently"),
                              "%s (with %d extra passive listeners and one listener toggled on and off)" % (b[3][0], 1 + i % 3))
                return
            if a1[:2] != a2[:2]:
                ctx.count("differential_nondeterministic_skipped")
            elif b[0] != a1[0]:
                k = next(j for j in range(min(len(a1[0]), len(b[0]))) if a1[0][j] != b[0][j]) if len(a1[0]) == len(b[0]) or True else 0
                ctx.violation("listeners-change-outcome", "with %d extra passive listeners step %d became %s instead of %s" % (
                    1 + i % 3, k, b[0][k] if k < len(b[0]) else None, a1[0][k] if k < len(a1[0]) else None))
            elif b[1] != a1[1]:
                ctx.violation("listeners-change-final-state", "final canonical state differs with extra passive listeners")
            ctx.count("passive_notifications", b[2])
            ctx.fingerprint(("diff", a1[0]), b[2] > 50)
            return
        if i % 8 == 6:
            # naming-policy changes of POPULATED elements under the mirror: a parentless netlist switched as a whole, and a
            # subtree built under the other policy added to a parent (every element's .NS entry is element data)
            from ..universe import Universe
            sh = Shadow(ctx)
            try:
                sdn.namespace_manager.default = "DEFAULT"
                a = sdn.Netlist("pa")
                la = a.create_library("la")
                da = la.create_definition("da")
                da.create_port("p0", pins=rng.choice([1, 2]))
                da.create_cable("c0", wires=1)
                db = la.create_definition("db")
                db.create_child("u0", reference=da)
                orphan = sdn.Library("lo")
                do = orphan.create_definition("do")
                do.create_port("q0", pins=1)
                do.create_cable("k0", wires=1)
                sdn.namespace_manager.default = "EDIF"
                b = sdn.Netlist("pb")
                b.create_library("lb")
                steps = [("netlist['.NS']='EDIF' on a populated netlist", lambda: a.__setitem__(".NS", "EDIF")),
                         ("add_library of a DEFAULT-built library to an EDIF netlist", lambda: b.add_library(orphan)),
                         ("definition['.NS']='DEFAULT' on a populated orphan definition", None)]
                rng.shuffle(steps)
                # ... and the policy key taken AWAY from a populated parentless element (del / pop): its contents lose theirs too,
                # every one of those deletions is a data change
                pc = sdn.Netlist("pc")
                lc = pc.create_library("lc")
                dc = lc.create_definition("dc")
                dc.create_port("pp", pins=1)
                dc.create_cable("cc", wires=1)
                steps.append(("del netlist['.NS'] on a populated netlist" if i % 16 == 6 else "netlist.pop('.NS') on a populated netlist",
                              (lambda: pc.__delitem__(".NS")) if i % 16 == 6 else (lambda: pc.pop(".NS"))))
                for what, fn in steps:
                    if fn is None:
                        od = sdn.Definition("od")
                        od.create_port("z0", pins=1)
                        od.create_cable("zc", wires=1)
                        fn = lambda: od.__setitem__(".NS", "DEFAULT")      # noqa: E731
                        extra = od
                    else:
                        extra = None
                    try:
                        fn()
                    except ValueError:
                        ctx.count("policy_change_refused")
                    ctx.count("mirror_compares")
                    ctx.count("policy_changes_under_the_mirror")
                    u_ = Universe.of(*(x for x in (a, b, orphan, extra, pc) if x is not None))
                    dd = sh.compare(u_)
                    if dd:
                        ctx.violation("mirror-%s@policy-change" % dd[0], "%s after %s" % (dd[1], what))
                        return
                ctx.fingerprint(("policy-changes", i), True)
            finally:
                sh.deregister_all_listeners()
            return
        # (a vetoing listener registered BEFORE the mirror: what it refuses is never announced to the mirror, and what was
        #  announced before the veto - the first wires of a bulk call - has happened)
        veto = WireBudget() if i % 5 == 2 else None
        sh = Shadow(ctx)
        try:
            eng = gen_ops.Engine(rng, "listen", policy, fences=tuple(FENCES) + (("bad_position",) if common.fenced(sys.modules[__name__], BADPOS) else ()))
            m = C19Monitor(ctx, sh)
            gen_ops.run_history(eng, rng.randint(60, 160), [m])
        finally:
            sh.deregister_all_listeners()
            if veto is not None:
                veto.deregister_all_listeners()
                ctx.count("wire_additions_vetoed_by_a_listener", veto.vetoes)
        ctx.fingerprint([(e[1], e[3]) for e in eng.log], sh.n >= 100 and sh.implicit_disc >= 1 and m.refused >= 1)
        if i < 2:
            ctx.sample({"policy": policy, "notifications": sh.n, "history_head": eng.log[:25]})
    finally:
        sdn.namespace_manager.default = "DEFAULT"
