"""C13 - query filters mean what they say.

Metamorphic monitors over the 13 query functions, every root kind they accept, selection x recursive, keys
(.NAME, EDIF.identifier, a user key with duplicate values) and patterns derived from the values present:
 R0  no element is returned twice (also for the unfiltered query);
 R1  f(r, p, **o) == [x in f(r, **o) | match(value_k(x), p, is_case, is_re)]   (independent matcher);
 R2  f(r, [p1, p2]) == union, independent of pattern order, no duplicates;
 R3  f(r, p, filter=g) == [x in f(r, p) | g(x)];
 R4  same results with the namespace manager's fast lookups deregistered (restored and verified afterwards)."""
import re
import sys
import collections

from .. import common

common.setup_env()
import spydrnet as sdn  # noqa: E402
from spydrnet.util.selection import Selection as S  # noqa: E402
from spydrnet.global_state import global_service  # noqa: E402

from .. import gen_ir  # noqa: E402
from .c11 import seq, oracle_name  # noqa: E402

PROP = "C13"
LEVEL = "exploration"
RULE = ("case = one generated netlist (mixed-case sibling names, EDIF identifiers, user key 'color' with duplicate values) "
        "under DEFAULT or EDIF policy x 13 query functions x sampled roots of every accepted kind (netlist, library, "
        "definition, instance, port, cable, inner/outer pin, wire, HRef, 2-element collection) x selection x recursive x "
        "patterns derived from values present (exact, case-swapped, prefix*, single ?, escaped regex, case-insensitive "
        "variants, two overlapping patterns); distinct = shape hash; non-trivial = >=300 relation instances with a non-empty "
        "expected result")
ASSUMPTIONS = ["an exact pattern on EDIF.identifier under the EDIF policy that equals a value only case-insensitively may or may "
               "not match (documented fast-lookup behaviour) and is excluded from R4",
               "wildcard patterns contain no '[' (fnmatch classes are outside '* and ? are shell wildcards')",
               "value of an element lacking the key is the empty string"]
REQUIRED = {"relations_R1": 20000, "relations_R2": 2000, "relations_R3": 2000, "relations_R4": 1000, "nonempty_expected": 8000}

NONH = {
    "get_netlists": (sdn.get_netlists, True, [None], False),
    "get_libraries": (sdn.get_libraries, True, [S.INSIDE, S.OUTSIDE], True),
    "get_definitions": (sdn.get_definitions, True, [S.INSIDE, S.OUTSIDE], True),
    "get_instances": (sdn.get_instances, True, [S.INSIDE, S.OUTSIDE], True),
    "get_ports": (sdn.get_ports, True, [None], False),
    "get_cables": (sdn.get_cables, True, [S.INSIDE, S.OUTSIDE, S.BOTH, S.ALL], True),
}
NOPAT = {
    "get_pins": (sdn.get_pins, [S.INSIDE, S.OUTSIDE], False),
    "get_wires": (sdn.get_wires, [S.INSIDE, S.OUTSIDE, S.BOTH, S.ALL], True),
}
HIER = {
    "get_hinstances": (sdn.get_hinstances, [None]),
    "get_hports": (sdn.get_hports, [None]),
    "get_hpins": (sdn.get_hpins, [None]),
    "get_hcables": (sdn.get_hcables, [S.INSIDE, S.OUTSIDE, S.BOTH, S.ALL]),
    "get_hwires": (sdn.get_hwires, [S.INSIDE, S.OUTSIDE, S.BOTH, S.ALL]),
}


def plan(tier):
    if tier == "thorough":
        return {"cases": 16 * 120, "shards": 16, "shard_budget_s": 1800, "watchdog_s": 2700, "case_timeout_s": 300}
    return {"cases": 48, "shards": 4, "shard_budget_s": 240, "watchdog_s": 600, "case_timeout_s": 200}


def glob_match(v, p, case):
    if not case:
        v, p = v.lower(), p.lower()
    rx = "".join(".*" if c == "*" else "." if c == "?" else re.escape(c) for c in p)
    return re.fullmatch(rx, v, re.S) is not None


def match(v, p, is_case, is_re):
    if v is None:
        v = ""
    if not isinstance(v, str):
        v = str(v)
    if is_re:
        return re.fullmatch(p, v, 0 if is_case else re.I) is not None
    return glob_match(v, p, is_case)


def ids(xs):
    return sorted(id(x) for x in xs)


OLD_VALUES = []


def rename_history(rng, x):
    """give x a past: a former (mixed-case) identifier and a former name that were later replaced; exact queries for
    the former values must find nothing (stale index entries would answer them)."""
    if "EDIF.identifier" in x and rng.random() < 0.4:
        final = x["EDIF.identifier"]
        old = "Old%s_%d" % (final[:6].title(), rng.randrange(1000))
        try:
            x["EDIF.identifier"] = old
            x["EDIF.identifier"] = final
            OLD_VALUES.append(old)
        except ValueError:
            pass
    if "EDIF.identifier" in x and rng.random() < 0.25:
        # an ill-formed identifier is offered (refused under the EDIF policy, accepted and replaced again under DEFAULT):
        # either way the element answers to its identifier afterwards and nothing answers to the ill-formed one
        final = x["EDIF.identifier"]
        bad = rng.choice(["1bad-id%d", "bad id %d", "-x%d", "b.%d"]) % rng.randrange(1000)
        try:
            x["EDIF.identifier"] = bad
            x["EDIF.identifier"] = final
        except ValueError:
            pass
        if x["EDIF.identifier"] == final:
            OLD_VALUES.append(bad)
    if x.name and "EDIF.identifier" in x and rng.random() < 0.12:
        # the identifier is taken away again (pop or del): the element must still answer to its name
        try:
            if rng.random() < 0.5:
                x.pop("EDIF.identifier")
            else:
                del x["EDIF.identifier"]
        except ValueError:
            pass
    if x.name and not isinstance(x, sdn.Library) and rng.random() < 0.06:
        # the name is taken away by assigning None (and perhaps another one given later): nothing answers to the former name
        old = x.name
        try:
            x.name = None
            OLD_VALUES.append(old)
            if rng.random() < 0.5:
                x.name = "renamed_%d" % rng.randrange(100000)
        except ValueError:
            pass
    if x.name and x.name.swapcase() != x.name and rng.random() < 0.08:
        # renamed to a case variant of its own name: it answers to the new spelling only (exactly)
        old = x.name
        try:
            x.name = old.swapcase()
            OLD_VALUES.append(old)
        except ValueError:
            pass
    if x.name == "" and rng.random() < 0.5:
        # the element named "" (a legal name) gets a real name: afterwards nothing in its scope answers to ""
        try:
            x.name = "formerly_empty_%d" % rng.randrange(100000)
        except ValueError:
            pass
    if x.name and not isinstance(x, sdn.Library) and rng.random() < 0.04:
        # ... or it was called "" for a while
        final = x.name
        try:
            x.name = ""
            x.name = final
        except ValueError:
            pass
    if x.name and rng.random() < 0.2:
        final = x.name
        old = "was_%s_%d" % (final[:6], rng.randrange(1000))
        try:
            x.name = old
            x.name = final
            OLD_VALUES.append(old)
        except ValueError:
            pass


def decorate(rng, n, policy):
    del OLD_VALUES[:]
    _decorate(rng, n, policy)
    for l in n.libraries:
        rename_history(rng, l)
        for d in l.definitions:
            rename_history(rng, d)
            for x in list(d.ports) + list(d.cables) + list(d.children):
                rename_history(rng, x)
    decorate.refused = refused_adds(rng, n)
    # a past of BULK removals: the removed children are gone, also for exact-name queries
    for l in n.libraries:
        for d in l.definitions:
            if len(d.children) >= 2 and rng.random() < 0.25:
                gone = rng.sample(list(d.children), rng.randint(1, 2))
                for c in gone:
                    for op in list(c.pins):
                        if op.wire is not None:
                            op.wire.disconnect_pin(op)
                d.remove_children_from(gone if rng.random() < 0.5 else set(gone))
                OLD_VALUES.extend(c.name for c in gone if c.name)
            if len(d.cables) >= 2 and rng.random() < 0.15:
                gone = rng.sample(list(d.cables), 1)
                for c in gone:
                    for w in c.wires:
                        for p_ in list(w.pins):
                            w.disconnect_pin(p_)
                d.remove_cables_from(gone)
                OLD_VALUES.extend(c.name for c in gone if c.name)


def refused_adds(rng, n):
    """a past of REFUSED edits: an orphan with a fresh identifier but a sibling's name is offered to a definition and
    refused; nothing in the netlist carries that identifier, so exact queries for it must find nothing."""
    k = 0
    for l in n.libraries:
        for d in l.definitions:
            if rng.random() > 0.3:
                continue
            for kind, sibs, mk, add in (("port", list(d.ports), sdn.Port, d.add_port), ("cable", list(d.cables), sdn.Cable, d.add_cable),
                                        ("child", list(d.children), sdn.Instance, d.add_child)):
                named = [x for x in sibs if x.name]
                if not named or rng.random() < 0.5:
                    continue
                ident = "Refused%s%d" % (kind.title(), rng.randrange(10000))
                o = mk(rng.choice(named).name)
                o["EDIF.identifier"] = ident
                try:
                    add(o)
                except ValueError:
                    OLD_VALUES.append(ident)
                    k += 1
                    continue
                # accepted after all (should not happen: the name is taken): take it out again, nothing to query
                {"port": d.remove_port, "cable": d.remove_cable, "child": d.remove_child}[kind](o)
    return k


def _twins(rng, n):
    """Siblings whose names differ only in letter case (data / Data / DATA) or only by a trailing blank (the Verilog reader keeps
    the blank that ends an escaped identifier:  '\\m$0 '  next to  '\\m$0'): names are free text, every one of them is legal."""
    k = 0
    for l in n.libraries:
        for d in l.definitions:
            for coll, mk in ((list(d.cables), lambda nm, x: d.create_cable(nm, wires=1)),
                             (list(d.children), lambda nm, x: d.create_child(nm, reference=x.reference)),
                             (list(d.ports), (lambda nm, x: d.create_port(nm, pins=1)) if not d.references else None)):
                named = [x for x in coll if x.name and "[" not in x.name]
                if not named or mk is None or rng.random() < 0.6:
                    continue
                x = rng.choice(named)
                for nm in rng.sample([x.name.swapcase(), x.name.upper(), x.name.lower(), x.name + " ", " " + x.name, x.name.rstrip() + "  ", "", ""], 2):
                    if nm != x.name and not any(y.name == nm for y in coll):
                        try:
                            mk(nm, x)
                            k += 1
                        except ValueError:
                            pass        # (EDIF policy: the identifier derived elsewhere may collide - not the point here)
    return k


def _decorate(rng, n, policy):
    colors = ["red", "blue", "Red"]
    _decorate.twins = _twins(rng, n) if rng.random() < 0.6 else 0
    for l in n.libraries:
        l["color"] = rng.choice(colors)
        if policy == "EDIF" and l.name:
            l["EDIF.identifier"] = re.sub(r"[^A-Za-z0-9_]", "_", l.name)
        for d in l.definitions:
            d["color"] = rng.choice(colors)
            if rng.random() < 0.6 and d.name:
                d["EDIF.identifier"] = re.sub(r"[^A-Za-z0-9_]", "_", d.name)
            for x in list(d.ports) + list(d.cables) + list(d.children):
                if rng.random() < 0.7:
                    x["color"] = rng.choice(colors)
                if rng.random() < 0.5 and x.name:
                    try:
                        x["EDIF.identifier"] = re.sub(r"[^A-Za-z0-9_]", "_", x.name)
                    except ValueError:
                        pass        # a twin (other letter case, a trailing blank) already holds that identifier under the EDIF policy


def roots_of(rng, n, must=()):
    defs = [d for l in n.libraries for d in l.definitions]
    out = [("Netlist", n)]
    out += [("Library", l) for l in rng.sample(list(n.libraries), min(2, len(n.libraries)))]
    some = rng.sample(defs, min(3, len(defs)))
    if n.top_instance.reference not in some:
        some.append(n.top_instance.reference)
    for d in must:
        if d is not None and d not in some:
            some.append(d)
    for d in some:
        out.append(("Definition", d))
        if len(d.children):
            c = rng.choice(list(d.children))
            out.append(("Instance", c))
            ops = list(c.pins)
            if ops:
                out.append(("OuterPin", rng.choice(ops)))
        if len(d.ports):
            p = rng.choice(list(d.ports))
            out.append(("Port", p))
            if len(p.pins):
                out.append(("InnerPin", rng.choice(list(p.pins))))
        if len(d.cables):
            c = rng.choice(list(d.cables))
            out.append(("Cable", c))
            if len(c.wires):
                out.append(("Wire", rng.choice(list(c.wires))))
    hrefs = list(sdn.get_hinstances(n, recursive=True))
    if hrefs:
        out.append(("HRef", rng.choice(hrefs)))
    out.append(("HRef", next(sdn.get_hinstances(n.top_instance))))
    out.append(("Collection", [n.libraries[0], defs[0]]))
    out.append(("Instance", n.top_instance))
    # an instance together with a hierarchical reference to one of its own pins (the reference standing last): both reach the same pins
    hps = [h for h in sdn.get_hpins(n, recursive=True) if len(seq(h)) >= 4]
    if hps:
        hp = rng.choice(hps)
        out.append(("Collection", [seq(hp)[-3], hp]))
        out.append(("Collection", [hp, hp.item if hasattr(hp, "item") else seq(hp)[-1], hp]))
    return out


class Checker:
    def __init__(self, ctx, rng, policy, st):
        self.ctx, self.r, self.policy, self.st = ctx, rng, policy, st
        self.rel = 0
        self.nonempty = 0
        self.failed = False
        self.keys = set()
        self.rel_depth = 0

    def fail(self, key, detail):
        """Record each distinct mechanism key once per case and keep going (so one defect does not mask others)."""
        if key not in self.keys:
            self.keys.add(key)
            self.ctx.violation(key, "%s | policy=%s %s" % (detail, self.policy, self.st))
        if len(self.keys) > 40:
            self.failed = True

    def value(self, x, key):
        if key is None:
            if self.rel_depth:
                # hierarchical names are matched relative to an HRef root: drop the root's own path
                sq = seq(x)
                return oracle_name((sq[0],) + sq[self.rel_depth:])
            return x.name
        return x[key] if key in x else ""

    def patterns(self, values, key, hier, carry_all=False):
        vals = sorted(set(v for v in values if isinstance(v, str) and v))
        # the empty string is a name like any other (and the empty pattern matches nothing else): asked whenever every element
        # of the unfiltered result carries the key (what an element WITHOUT a name answers to is not C13's business)
        values = list(values)
        empty = []
        if carry_all and values and all(isinstance(v, str) for v in values) and ("" in values or self.r.random() < 0.5):
            empty = [("", True, False, "exact-empty"), ("", self.r.random() < 0.5, True, "regex-empty"), ("", False, False, "nocase-exact-empty")]
            self.ctx.count("empty_patterns_asked")
        if not vals:
            return empty
        a = self.r.choice(vals)
        b = self.r.choice(vals)
        out = [(a, True, False, "exact"), (a.swapcase(), True, False, "exact-caseswapped"),
               (re.escape(a), True, True, "regex"),
               (re.escape(a).swapcase() if a.isalnum() else re.escape(a), False, True, "regex-nocase"),
               (re.escape(a[:1]) + ".*", True, True, "regex-prefix")]
        # character classes and anchors written with capital letters keep their meaning when letter case is ignored
        out += [(r"\D+", False, True, "regex-class-nocase"), (r"\S+", self.r.random() < 0.5, True, "regex-class"),
                (r"\A" + re.escape(a) + r"\Z", False, True, "regex-anchors-nocase"), (r"[^\W\d]\w*", False, True, "regex-negated-class-nocase")]
        if len(a) >= 2:
            # full match means the WHOLE value, also when a shorter alternative or a lazy quantifier could stop earlier
            k_ = self.r.randint(1, len(a) - 1)
            out += [("(?:%s|%s)" % (re.escape(a[:k_]), re.escape(a)), True, True, "regex-alternation-shorter-first"),
                    (re.escape(a[:k_]) + ".*?", self.r.random() < 0.5, True, "regex-lazy-tail"),
                    (re.escape(a[:k_]), True, True, "regex-proper-prefix-only")]
        if OLD_VALUES and not hier and key in (".NAME", "EDIF.identifier"):
            o = self.r.choice(OLD_VALUES)
            out += [(o, True, False, "exact-former-value"), (o.lower(), True, False, "exact-former-value-lower")]
        if "[" not in a:
            out += [(a.swapcase(), False, False, "nocase-exact"), (a[:1] + "*", True, False, "glob-prefix"), (a[:1].swapcase() + "*", False, False, "glob-prefix-nocase"),
                    (a[:-1] + "?", True, False, "glob-q"), ("*" + b[-1:], False, False, "glob-suffix-nocase")]
        return out + empty

    def run(self, fname, f, root_label, root, opts, key, hier):
        ctx = self.ctx
        kw = dict(opts)
        kwk = dict(kw)
        self.rel_depth = 0
        if hier and root_label == "HRef":
            self.rel_depth = len(seq(root))
        if key is not None and key != ".NAME":
            kwk["key"] = key
        tag = "%s(%s,%s%s)" % (fname, root_label, ",".join("%s=%s" % (k, getattr(v, "name", v)) for k, v in sorted(kw.items())),
                               "" if key in (None, ".NAME") else ",key=" + key)
        try:
            U = list(f(root, **kwk))
        except Exception as ex:  # noqa: BLE001
            ctx.count("query_raised:%s:%s:%s" % (fname, root_label, type(ex).__name__))
            return
        if len(set(map(id, U))) != len(U):
            return self.fail("R0-duplicates-unfiltered:%s:%s" % (fname, root_label), "%s returns an element twice (%d results, %d distinct)" % (tag, len(U), len(set(map(id, U)))))
        k_eff = None if hier else (key or ".NAME")
        pats = self.patterns([self.value(x, k_eff) for x in U], k_eff, hier, hier or all(k_eff in x for x in U))
        me = sys.modules[__name__]
        if hier and (root_label not in ("Netlist", "HRef") or opts.get("selection", S.INSIDE) is not S.INSIDE or
                     (root_label == "HRef" and not isinstance(root.item, sdn.Instance))) and \
                common.fenced(me, "hquery-ignores-pattern-for-element-roots"):
            ctx.count("fenced:hierarchical-patterns-on-element-roots")
            pats = []
        if k_eff not in (None, ".NAME", "EDIF.identifier") and common.fenced(me, "exact-user-key-returns-one-per-scope"):
            ctx.count("fenced:exact-user-key")
            pats = [x for x in pats if not x[3].startswith("exact")]
        results = {}
        for p, ic, ir, kind in pats:
            may = set()
            if k_eff == "EDIF.identifier" and kind in ("exact", "exact-former-value", "exact-former-value-lower") and self.policy == "EDIF":
                may = set(id(x) for x in U if isinstance(self.value(x, k_eff), str) and self.value(x, k_eff).lower() == p.lower())
            if k_eff == "EDIF.identifier" and kind in ("exact", "exact-caseswapped", "exact-former-value", "exact-former-value-lower") and self.policy != "EDIF" and \
                    common.fenced(sys.modules[__name__], "identifier-lookup-under-default-policy"):
                ctx.count("fenced:exact-identifier-under-default")
                continue
            if k_eff == "EDIF.identifier" and kind == "exact-caseswapped" and self.policy == "EDIF":
                may = set(id(x) for x in U if isinstance(self.value(x, k_eff), str) and self.value(x, k_eff).lower() == p.lower())
            try:
                if self.r.random() < 0.2:
                    ctx.count("patterns_passed_by_keyword")
                    got = list(f(root, patterns=p, is_case=ic, is_re=ir, **kwk))        # the documented keyword form
                else:
                    got = list(f(root, p, is_case=ic, is_re=ir, **kwk))
            except Exception as ex:  # noqa: BLE001
                return self.fail("query-raised:%s:%s" % (fname, type(ex).__name__), "%s pattern %r raised %r" % (tag, p, ex))
            # R6: the method / shortcut of the same name on the root element answers like the module-level function
            meth = getattr(root, fname, None) if not isinstance(root, (list, tuple, set)) else None
            if callable(meth) and self.r.random() < 0.25:
                try:
                    got_m = list(meth(p, is_case=ic, is_re=ir, **kwk))
                except Exception as ex:  # noqa: BLE001
                    return self.fail("shortcut-raised:%s:%s" % (fname, type(ex).__name__), "%s as a method of the root, pattern %r raised %r" % (tag, p, ex))
                ctx.count("relations_R6_shortcut")
                if sorted(map(id, got_m)) != sorted(map(id, got)):
                    return self.fail("R6:%s:%s" % (fname, root_label), "%s pattern %r: root.%s(...) returned %d, sdn.%s(root, ...) returned %d" % (
                        tag, p, fname, len(got_m), fname, len(got)))
            exp = [x for x in U if match(self.value(x, k_eff), p, ic, ir)]
            ctx.count("relations_R1")
            self.rel += 1
            if exp:
                ctx.count("nonempty_expected")
                self.nonempty += 1
            results[(p, ic, ir)] = got
            if len(set(map(id, got))) != len(got):
                return self.fail("R0-duplicates:%s:%s:%s" % (fname, root_label, kind), "%s pattern %r (%s) returns an element twice" % (tag, p, kind))
            gi, ei = set(map(id, got)), set(map(id, exp))
            if may:
                # elements equal to the pattern only up to letter case MAY be returned (documented fast-lookup behaviour
                # under the EDIF policy); every element that matches exactly MUST be
                ok = ei <= gi <= (ei | may)
            else:
                ok = gi == ei
            if not ok:
                return self.fail("R1:%s:%s:%s:%s" % (fname, root_label if hier else ("hier" if hier else root_label), kind, "missing" if len(gi) < len(ei) else "extra"),
                                 "%s pattern %r (%s, is_case=%s, is_re=%s) returned %d, restriction of the unfiltered result has %d (key %s)" % (
                                     tag, p, kind, ic, ir, len(gi), len(ei), k_eff))
            # R3
            if self.r.random() < 0.3:
                # the callback is any predicate: it may answer with a bool, a number or an object (truthiness counts)
                form_ = self.r.randrange(4)
                if form_ == 0:
                    g = (lambda x: (len(self.value(x, k_eff) or "") % 2) == 0)
                elif form_ == 1:
                    g = (lambda x: len(self.value(x, k_eff) or "") % 3)             # 0 / 1 / 2
                elif form_ == 2:
                    g = (lambda x: (self.value(x, k_eff) or "")[1:2])                # '' or a one-character string
                else:
                    g = (lambda x: [x] if len(self.value(x, k_eff) or "") % 2 else None)
                ctx.count("filter_callbacks_returning_non_bool", 1 if form_ else 0)
                try:
                    gotf = list(f(root, p, is_case=ic, is_re=ir, filter=g, **kwk))
                except Exception as ex:  # noqa: BLE001
                    return self.fail("query-raised:%s:%s" % (fname, type(ex).__name__), "%s with filter raised %r" % (tag, ex))
                ctx.count("relations_R3")
                if ids(gotf) != ids([x for x in got if g(x)]):
                    return self.fail("R3:%s:%s" % (fname, root_label), "%s pattern %r with filter returned %d, expected %d" % (
                        tag, p, len(gotf), len([x for x in got if g(x)])))
        # R2: union / order
        plain = [(p, ic, ir, kind) for p, ic, ir, kind in pats if ic and not ir and (p, ic, ir) in results]
        if fname in ("get_libraries", "get_definitions", "get_instances") and \
                common.fenced(me, "overlapping-patterns-duplicates"):
            ctx.count("fenced:overlapping-patterns")
            plain = [x for x in plain if x[3] in ("exact", "exact-caseswapped")]    # these two never overlap
        if len(plain) >= 2 and not (k_eff == "EDIF.identifier"):
            (p1, _, _, k1), (p2, _, _, k2) = plain[0], plain[-1]
            try:
                a = list(f(root, [p1, p2], **kwk))
                b = list(f(root, [p2, p1], **kwk))
            except Exception as ex:  # noqa: BLE001
                return self.fail("query-raised:%s:%s" % (fname, type(ex).__name__), "%s two patterns raised %r" % (tag, ex))
            ctx.count("relations_R2")
            want = set(map(id, results[(p1, True, False)])) | set(map(id, results[(p2, True, False)]))
            if len(set(map(id, a))) != len(a) or len(set(map(id, b))) != len(b):
                return self.fail("R2-duplicates:%s:%s" % (fname, root_label), "%s patterns [%r,%r] return an element twice (%d results, %d distinct)" % (
                    tag, p1, p2, len(a), len(set(map(id, a)))))
            if set(map(id, a)) != want or set(map(id, b)) != want:
                return self.fail("R2-union:%s:%s" % (fname, root_label), "%s patterns [%r,%r]: %d / reversed %d results, union of single-pattern results has %d" % (
                    tag, p1, p2, len(a), len(b), len(want)))
        # R4: without fast lookup
        if not hier and results and self.r.random() < 0.5:
            saved = dict(global_service._registered_lookups)
            try:
                for k in list(saved):
                    global_service.deregister_lookup(k)
                for (p, ic, ir), got in results.items():
                    if k_eff == "EDIF.identifier" and self.policy == "EDIF" and ic and not ir and "*" not in p and "?" not in p:
                        continue
                    got2 = list(f(root, p, is_case=ic, is_re=ir, **kwk))
                    ctx.count("relations_R4")
                    if ids(got2) != ids(got):
                        return self.fail("R4:%s:%s" % (fname, root_label), "%s pattern %r: %d results with fast lookup, %d without" % (tag, p, len(got), len(got2)))
            finally:
                for k in list(global_service._registered_lookups):
                    global_service.deregister_lookup(k)
                for k, v in saved.items():
                    global_service.register_lookup(k, v)
            if dict(global_service._registered_lookups) != saved:
                return self.fail("R4-restore", "fast lookups not restored")


def run_case(ctx, i, rng):
    policy = "EDIF" if i % 2 else "DEFAULT"
    sdn.namespace_manager.default = policy
    try:
        n = gen_ir.generate(rng, profile="edif" if i % 3 else "any", style="mixed", ndefs=rng.randint(3, 7), share=0.5,
                            max_children=4, outside=True, big=(i % 24 == 5))
        # (the hierarchical queries enumerate the ELABORATED design: deep sharing multiplies it; cases beyond 5000 elaborated
        #  objects are discarded so that every case stays inside its time slot - counted, and decided by size, not by the clock)
        memo_ = {}

        def elab_size(d_):
            if id(d_) not in memo_:
                memo_[id(d_)] = 0
                memo_[id(d_)] = 1 + len(d_.cables) + sum(len(c_.wires) for c_ in d_.cables) + sum(len(p_.pins) for p_ in d_.ports) + \
                    sum(elab_size(c_.reference) for c_ in d_.children if c_.reference is not None)
            return memo_[id(d_)]
        if n.top_instance is not None and n.top_instance.reference is not None and elab_size(n.top_instance.reference) > 5000:
            ctx.count("discarded_too_large")
            return
        graft = None
        if i % 3 == 1:
            # part of the netlist was built stand-alone under the other naming policy and then added (policy re-applied)
            graft = gen_ir.graft_foreign_policy_definition(rng, n, policy)
            if graft is not None:
                ctx.count("netlists_with_a_definition_grafted_from_the_other_policy")
        decorate(rng, n, policy)
        ctx.count("refused_adds_in_history", decorate.refused)
        ctx.count("case_and_blank_twins_planted", _decorate.twins)
        st = gen_ir.shape_stats(n)
        ck = Checker(ctx, rng, policy, st)
        roots = roots_of(rng, n, must=[graft])
        # a second netlist that shares name, identifier and user-key value with the first: roots reaching both
        n2 = sdn.Netlist(n.name)
        for k_ in ("EDIF.identifier", "color"):
            if k_ in n:
                try:
                    n2[k_] = n[k_]
                except ValueError:
                    pass
        l2 = n2.create_library(n.libraries[0].name or "lib_of_twin")
        d2 = l2.create_definition("twin_def")
        d2.create_port("tp", pins=1)
        roots.append(("TwoNetlists", [n, n2]))
        roots.append(("TwoNetlists", [l2, n.libraries[0]]))
        for fname, (f, has_key, sels, has_rec) in NONH.items():
            for label, root in roots:
                for sel in sels:
                    for rec in ([False, True] if has_rec else [None]):
                        for key in (".NAME", "EDIF.identifier", "color"):
                            if ck.failed:
                                return
                            if key != ".NAME" and rng.random() < 0.5:
                                continue
                            opts = {}
                            if sel is not None:
                                opts["selection"] = sel
                            if rec is not None:
                                opts["recursive"] = rec
                            ck.run(fname, f, label, root, opts, key, False)
        for fname, (f, sels, has_rec) in NOPAT.items():
            for label, root in roots:
                for sel in sels:
                    for rec in ([False, True] if has_rec else [None]):
                        opts = {"selection": sel}
                        if rec is not None:
                            opts["recursive"] = rec
                        try:
                            U = list(f(root, **opts))
                        except Exception as ex:  # noqa: BLE001
                            ctx.count("query_raised:%s:%s:%s" % (fname, label, type(ex).__name__))
                            continue
                        if len(set(map(id, U))) != len(U):
                            ck.fail("R0-duplicates-unfiltered:%s:%s" % (fname, label), "%s(%s,%s) returns an element twice" % (fname, label, opts))
                            return
                        g = (lambda x: id(x) % 3 == 0) if rng.random() < 0.5 else (lambda x: id(x) % 3)     # bool or int answers
                        got = list(f(root, filter=g, **opts))
                        ctx.count("relations_R3")
                        if ids(got) != ids([x for x in U if g(x)]):
                            ck.fail("R3:%s:%s" % (fname, label), "%s(%s,%s) with filter differs from filtered unfiltered result" % (fname, label, opts))
                            return
        for fname, (f, sels) in HIER.items():
            for label, root in roots:
                for sel in sels:
                    for rec in (False, True):
                        if ck.failed:
                            return
                        opts = {"recursive": rec}
                        if sel is not None:
                            opts["selection"] = sel
                        ck.run(fname, f, label, root, opts, None, True)
        if ck.failed or ck.keys:
            return
        # R5: adding a root never removes results - the hierarchical queries over [netlist, reference-of-a-child] (overlapping
        #     roots, the child's sub-tree is reached twice) still find, by exact hierarchical name, everything the netlist alone gives
        tops = list(sdn.get_hinstances(n, recursive=False))
        if len(tops) >= 2:
            for fname, (f, sels) in HIER.items():
                allrefs = list(f(n, recursive=True))
                if not allrefs:
                    continue
                for hchild in (tops[-1], tops[len(tops) // 2]):
                    for h0 in rng.sample(allrefs, min(len(allrefs), 6)):
                        pat = h0.name
                        if not pat or any(ch in pat for ch in "*?["):
                            continue
                        if pat == hchild.name or pat.startswith(hchild.name + "/"):
                            # inside the sub-tree that both roots reach the name an element answers to depends on which root
                            # reaches it first (relative vs absolute name): not specified, not judged (DESIGN 7)
                            ctx.count("R5_skipped_inside_doubly_reached_subtree")
                            continue
                        try:
                            alone = set(map(id, f(n, pat, recursive=True)))
                            both = set(map(id, f([n, hchild], pat, recursive=True)))
                        except Exception as ex:  # noqa: BLE001
                            ctx.count("query_raised:%s:R5:%s" % (fname, type(ex).__name__))
                            continue
                        ctx.count("relations_R5")
                        if not alone <= both:
                            ctx.violation("R5:%s:overlapping-roots-lose-results" % fname,
                                          "%s([netlist, reference of child %r], %r, recursive=True) misses %d of the %d references that the netlist alone gives | %s" % (
                                              fname, hchild.name, pat, len(alone - both), len(alone), st))
                            return
        ctx.fingerprint((st, policy, ck.rel), ck.nonempty >= 300)
        if i < 2:
            ctx.sample({"policy": policy, "shape": st, "relation_instances": ck.rel, "with_nonempty_expected": ck.nonempty,
                        "roots": collections.Counter(l for l, _ in roots)})
    finally:
        sdn.namespace_manager.default = "DEFAULT"


def probe_identifier_default():
    from .c10 import probe_identifier_default as p
    return p()


def _small():
    n = sdn.Netlist("n")
    lib = n.create_library("lib")
    leaf = lib.create_definition("leaf")
    top = lib.create_definition("top")
    top.create_child("u0", reference=leaf)
    top.create_child("u1", reference=leaf)
    n.top_instance = top
    return n, lib, leaf, top


def probe_overlap():
    """S10: a second-phase query (root that is not the direct scope) with overlapping patterns returns duplicates."""
    n, lib, leaf, top = _small()
    got = list(sdn.get_instances(leaf, ["u0", "u?"], selection="OUTSIDE"))
    return len(got) > len(set(map(id, got)))


def probe_userkey():
    """S11: exact pattern on a user key returns at most one element per scope."""
    n, lib, leaf, top = _small()
    for c in top.children:
        c["color"] = "red"
    return len(list(sdn.get_instances(top, "red", key="color"))) == 1 and len(list(sdn.get_instances(top, "re?", key="color"))) == 2


def probe_hquery():
    """S21: hierarchical queries ignore patterns for non-netlist / non-HRef roots."""
    n, lib, leaf, top = _small()
    return len(list(sdn.get_hinstances(leaf, "u0"))) == 2 and len(list(sdn.get_hinstances(n, "u0"))) == 1


PROBES = {"identifier-lookup-under-default-policy": probe_identifier_default,
          "overlapping-patterns-duplicates": probe_overlap,
          "exact-user-key-returns-one-per-scope": probe_userkey,
          "hquery-ignores-pattern-for-element-roots": probe_hquery}
