"""C12 - cross-hierarchy tracing returns exactly the electrically connected net.

Monitor: for every hierarchical wire and hierarchical pin of a generated netlist as the starting point, the
result sets of get_hwires / get_hcables / get_hpins / get_hports under each selection are compared with the
equivalence classes of an independent union-find over hierarchical wires (joined across every instance-pin
boundary)."""
import collections

from .. import common

common.setup_env()
import spydrnet as sdn  # noqa: E402
from spydrnet.util.selection import Selection as S  # noqa: E402

from .. import gen_ir  # noqa: E402
from .c11 import seq, ids  # noqa: E402

PROP = "C12"
LEVEL = "exploration"
RULE = ("case = one generated netlist; every hierarchical wire and every hierarchical pin (capped at 400 starts per netlist "
        "in the quick tier) is a start point for get_hwires/get_hcables (ALL, INSIDE, OUTSIDE, BOTH), get_hpins(hwire), "
        "get_hports(hwire); then pins are moved between wires (two rounds) and every question is asked again in the same process; distinct = shape hash; non-trivial = some net class spans >=2 hierarchy levels and some start "
        "wire touches only instance pins")
ASSUMPTIONS = ["net classes come from a union-find over (path, wire) pairs joined where an outer pin's inner pin has a wire"]
REQUIRED = {"starts_hwire": 2000, "starts_hpin": 4000, "relations_checked": 40000, "netlists_requeried_after_rewire": 50,
            "wired_port_pins_removed_and_put_back": 10}
PROBES = {}
KNOWN_KEYS = set()


def plan(tier):
    if tier == "thorough":
        return {"cases": 16 * 300, "shards": 16, "shard_budget_s": 1500, "watchdog_s": 2400}
    return {"cases": 200, "shards": 4, "shard_budget_s": 200, "watchdog_s": 600}


class UFD:
    def __init__(self):
        self.p = {}

    def find(self, x):
        self.p.setdefault(x, x)
        r = x
        while self.p[r] != r:
            r = self.p[r]
        while self.p[x] != r:
            self.p[x], x = r, self.p[x]
        return r

    def union(self, a, b):
        a, b = self.find(a), self.find(b)
        if a != b:
            self.p[a] = b


def check(ctx, key, what, got, want, st):
    ctx.count("relations_checked")
    g = [ids(seq(h)) for h in got]
    gs = set(g)
    if len(g) != len(gs):
        ctx.violation(key + ":duplicates", "%s returned %d references, %d distinct | %s" % (what, len(g), len(gs), st))
        return True
    if gs != want:
        ctx.violation(key, "%s: %d returned, %d expected, %d missing, %d extra | %s" % (
            what, len(gs), len(want), len(want - gs), len(gs - want), st))
        return True
    return False


def rewire(n, rng):
    """Moves pins between wires of their definition (disconnect, connect elsewhere, connect open pins)."""
    moved = 0
    rewire.put_back = 0
    for l in n.libraries:
        for d in l.definitions:
            wires = [w for c in d.cables for w in c.wires]
            if not wires:
                continue
            pins = [p for port in d.ports for p in port.pins] + [op for ch in d.children for op in ch.pins]
            for ch in d.children:
                if rng.random() < 0.15:
                    ch.reference = ch.reference         # a legal no-op edit: nothing about the nets may change
                    moved += 1
            for p in pins:
                x = rng.random()
                if x > 0.96 and isinstance(p, sdn.InnerPin) and p.wire is not None and p.port is not None and len(p.port.pins) > 1:
                    # a wired port pin is removed from its port: it stays on its wire, belonging to no port - a left-over that later
                    # pins of that wire stand behind
                    port_ = p.port
                    port_.remove_pin(p)
                    moved += 1
                    if rng.random() < 0.6:
                        # ... and the SAME pin object is put back (undo / the bit moved inside its bus); the instances of the cell
                        # get a fresh pin for it, wired outside again
                        port_.add_pin(p, position=rng.randint(0, len(port_.pins)))
                        rewire.put_back += 1
                        for inst in list(d.references):
                            pd = inst.parent
                            if pd is None or p not in inst.pins:
                                continue
                            pw = [w for c in pd.cables for w in c.wires]
                            if pw and rng.random() < 0.8:
                                rng.choice(pw).connect_pin(inst.pins[p])
                        moved += 1
                    continue
                if x < 0.25:
                    # every spelling of the public API: the pin object itself or, for an instance pin, a by-value handle
                    # built from (instance, inner pin); single and bulk calls
                    handle = p
                    if isinstance(p, sdn.OuterPin) and rng.random() < 0.5:
                        handle = sdn.OuterPin.from_instance_and_inner_pin(p.instance, p.inner_pin)
                    if p.wire is not None:
                        if rng.random() < 0.5:
                            p.wire.disconnect_pin(handle)
                        else:
                            p.wire.disconnect_pins_from([handle])
                        moved += 1
                    if x < 0.18:
                        w_ = rng.choice(wires)
                        if rng.random() < 0.5:
                            w_.connect_pin(handle)
                        else:
                            w_.connect_pin(handle, position=rng.randint(0, len(w_.pins)))   # where in wire.pins is the caller's choice
                        moved += 1
    return moved


def run_case(ctx, i, rng):
    n = gen_ir.generate(rng, profile="edif" if i % 2 else "any", share=0.6, ndefs=rng.randint(3, 9),
                        max_children=rng.choice([2, 3, 4]))
    # a netlist is a netlist however it came about: the copy made by clone(), the result of uniquify
    if i % 4 == 3:
        n = n.clone()
        ctx.count("cloned_netlists_traced")
    elif i % 4 == 1 and n.top_instance is not None:
        try:
            from spydrnet.uniquify import uniquify
            uniquify(n)
            ctx.count("uniquified_netlists_traced")
        except Exception as ex:  # noqa: BLE001 - C08's business
            ctx.count("uniquify_failed:%s" % type(ex).__name__)
            return
    st = gen_ir.shape_stats(n)
    r = check_netlist(ctx, i, rng, n, st, "")
    if r is None:
        return
    # the same questions again, in the same process, after the netlist was rewired: answers must follow the
    # netlist as it is now (nothing remembered from earlier queries)
    for round_ in range(2):
        try:
            moved = rewire(n, rng)
        except Exception as ex:  # noqa: BLE001 - every call in rewire() has valid arguments for the netlist as it should be
            from .. import probes
            ctx.violation("valid-edit-refused-during-rewire:%s" % type(ex).__name__,
                          "a disconnect/connect with valid arguments raised %r at %s (state left by an earlier edit?) | %s" % (
                              ex, probes.innermost_frame(ex), st))
            return
        ctx.count("rewired_pins", moved)
        ctx.count("wired_port_pins_removed_and_put_back", rewire.put_back)
        r2 = check_netlist(ctx, i, rng, n, st, "after-rewire:")
        if r2 is None:
            return
        ctx.count("netlists_requeried_after_rewire")
    ctx.fingerprint(r[0], r[1])
    if i < 3:
        ctx.sample(r[2])


def _q(rng, ctx, fn, root, **kw):
    """the module-level query or, one time in four, the shortcut method of the same name on the reference itself"""
    sel = kw.get("selection")
    if sel is not None and hasattr(sel, "name"):
        # every documented spelling of the selection: the enumeration member, its name, the constant exported by the package
        form = rng.randrange(3)
        if form == 1:
            kw["selection"] = sel.name
        elif form == 2 and hasattr(sdn, sel.name):
            kw["selection"] = getattr(sdn, sel.name)
            ctx.count("selections_spelled_by_the_package_constant")
    m = getattr(root, fn.__name__, None)
    if callable(m) and rng.random() < 0.25:
        ctx.count("queries_through_the_shortcut_method")
        return m(**kw)
    return fn(root, **kw)


def check_netlist(ctx, i, rng, n, st, phase):
    """All start points of one netlist state; returns None after a violation / discard, else (fingerprint, nontrivial, sample)."""
    hwires = list(sdn.get_hwires(n, recursive=True))
    hpins = list(sdn.get_hpins(n, recursive=True))
    if len(hwires) + len(hpins) > 2500:
        ctx.count("discarded_too_large")
        return None
    uf = UFD()
    wseq = {}
    for hw in hwires:
        s = seq(hw)
        k = ids(s)
        wseq[k] = s
        uf.find(k)
        w = s[-1]
        for pin in w.pins:
            if isinstance(pin, sdn.OuterPin):
                iw = pin.inner_pin.wire
                if iw is not None and iw.cable is not None:
                    uf.union(k, ids(s[:-2] + (pin.instance, iw.cable, iw)))
    classes = collections.defaultdict(set)
    for k in list(uf.p):
        classes[uf.find(k)].add(k)
    cap = 400 if ctx.tier == "quick" else 500      # (starts per kind: a trace costs up to a fifth of a second on nets with hundreds of pins)
    spans = any(len(set(len(k) for k in c)) > 1 for c in classes.values())
    only_inst = False
    # starts: hierarchical pins
    for hp in (hpins if len(hpins) <= cap else rng.sample(hpins, cap)):
        ctx.count("starts_hpin")
        s = seq(hp)
        inst, pin = s[-3], s[-1]
        iw = pin.wire
        inner = ids(s[:-2] + (iw.cable, iw)) if (iw is not None and iw.cable is not None) else None
        outer = None
        if len(s) > 3:
            op = inst.pins[pin]
            ow = op.wire
            if ow is not None and ow.cable is not None:
                outer = ids(s[:-3] + (ow.cable, ow))
        for sel, exp in ((S.INSIDE, {inner} - {None}), (S.OUTSIDE, {outer} - {None}), (S.BOTH, {inner, outer} - {None})):
            if check(ctx, phase + "hwires-from-hpin:%s" % sel.name, "get_hwires(hpin, %s)" % sel.name, _q(rng, ctx, sdn.get_hwires, hp, selection=sel), exp, st):
                return None
            if check(ctx, phase + "hcables-from-hpin:%s" % sel.name, "get_hcables(hpin, %s)" % sel.name, sdn.get_hcables(hp, selection=sel),
                     set(x[:-1] for x in exp), st):
                return None
        expall = set()
        for x in (inner, outer):
            if x is not None:
                expall |= classes[uf.find(x)]
        if check(ctx, phase + "hwires-from-hpin:ALL", "get_hwires(hpin, ALL)", _q(rng, ctx, sdn.get_hwires, hp, selection=S.ALL), expall, st):
            return None
        if check(ctx, phase + "hcables-from-hpin:ALL", "get_hcables(hpin, ALL)", sdn.get_hcables(hp, selection=S.ALL), set(x[:-1] for x in expall), st):
            return None
    # starts: hierarchical wires
    for hw in (hwires if len(hwires) <= cap else rng.sample(hwires, cap)):
        ctx.count("starts_hwire")
        s = seq(hw)
        w = s[-1]
        k = ids(s)
        exp = set()
        has_port_pin = False
        for pin in w.pins:
            if isinstance(pin, sdn.OuterPin):
                exp.add(ids(s[:-2] + (pin.instance, pin.inner_pin.port, pin.inner_pin)))
            elif pin.port is None:
                ctx.count("portless_pins_on_traced_wires")      # a pin removed from its port while wired: no hierarchical pin stands for it
            else:
                has_port_pin = True
                exp.add(ids(s[:-2] + (pin.port, pin)))
        if len(w.pins) and not has_port_pin:
            only_inst = True
        if check(ctx, phase + "hpins-from-hwire", "get_hpins(hwire)", _q(rng, ctx, sdn.get_hpins, hw), exp, st):
            return None
        if check(ctx, phase + "hports-from-hwire", "get_hports(hwire)", sdn.get_hports(hw), set(x[:-1] for x in exp), st):
            return None
        cls = classes[uf.find(k)]
        tag = "instance-pins-only" if (len(w.pins) and not has_port_pin) else "with-port-pin"
        if check(ctx, phase + "hwires-from-hwire:ALL:%s" % tag, "get_hwires(hwire, ALL) [%s]" % tag, _q(rng, ctx, sdn.get_hwires, hw, selection=S.ALL), cls, st):
            return None
        if check(ctx, phase + "hcables-from-hwire:ALL:%s" % tag, "get_hcables(hwire, ALL) [%s]" % tag, sdn.get_hcables(hw, selection=S.ALL),
                 set(x[:-1] for x in cls), st):
            return None
        if check(ctx, phase + "hwires-from-hwire:INSIDE", "get_hwires(hwire, INSIDE)", _q(rng, ctx, sdn.get_hwires, hw, selection=S.INSIDE), {k}, st):
            return None
    # starts: hierarchical cables and ports (union over their wires / pins)
    hcables = list(sdn.get_hcables(n, recursive=True))
    hports = list(sdn.get_hports(n, recursive=True))
    for hc in (hcables if len(hcables) <= cap // 4 else rng.sample(hcables, cap // 4)):
        ctx.count("starts_hcable")
        s = seq(hc)
        exp = set()
        for w in s[-1].wires:
            exp |= classes[uf.find(ids(s + (w,)))]
        if check(ctx, phase + "hwires-from-hcable:ALL", "get_hwires(hcable, ALL)", _q(rng, ctx, sdn.get_hwires, hc, selection=S.ALL), exp, st):
            return None
    for hp in (hports if len(hports) <= cap // 4 else rng.sample(hports, cap // 4)):
        ctx.count("starts_hport")
        s = seq(hp)
        inst, port = s[-2], s[-1]
        exp = set()
        for pin in port.pins:
            iw = pin.wire
            if iw is not None and iw.cable is not None:
                exp |= classes[uf.find(ids(s[:-1] + (iw.cable, iw)))]
            if len(s) > 2:
                ow = inst.pins[pin].wire
                if ow is not None and ow.cable is not None:
                    exp |= classes[uf.find(ids(s[:-2] + (ow.cable, ow)))]
        if check(ctx, phase + "hwires-from-hport:ALL", "get_hwires(hport, ALL)", _q(rng, ctx, sdn.get_hwires, hp, selection=S.ALL), exp, st):
            return None
    # starts: the netlist's own Port / Cable objects (not references): the union over their occurrences
    by_port, by_cable = {}, {}
    for hp in hports:
        by_port.setdefault(id(seq(hp)[-1]), []).append(hp)
    for hc in hcables:
        by_cable.setdefault(id(seq(hc)[-1]), []).append(hc)
    for table, what in ((by_port, "port"), (by_cable, "cable")):
        keys_ = list(table)
        for k_ in (keys_ if len(keys_) <= 6 else rng.sample(keys_, 6)):
            exp = set()
            for h_ in table[k_]:
                s = seq(h_)
                if what == "cable":
                    for w in s[-1].wires:
                        exp |= classes[uf.find(ids(s + (w,)))]
                else:
                    inst, port = s[-2], s[-1]
                    for pin in port.pins:
                        iw = pin.wire
                        if iw is not None and iw.cable is not None:
                            exp |= classes[uf.find(ids(s[:-1] + (iw.cable, iw)))]
                        if len(s) > 2:
                            ow = inst.pins[pin].wire
                            if ow is not None and ow.cable is not None:
                                exp |= classes[uf.find(ids(s[:-2] + (ow.cable, ow)))]
            elem = seq(table[k_][0])[-1]
            ctx.count("starts_element_%s" % what)
            if check(ctx, phase + "hwires-from-%s-element:ALL" % what, "get_hwires(%s object, ALL)" % what,
                     _q(rng, ctx, sdn.get_hwires, elem, selection=S.ALL), exp, st):
                return None
    # every member of a class gives the same ALL answer (follows from the above when all starts are checked)
    ctx.count("net_classes", len(classes))
    return ((st, sorted(len(c) for c in classes.values())), spans and only_inst,
            {"shape": st, "hwires": len(hwires), "hpins": len(hpins), "net_classes": len(classes),
             "largest_class": max([len(c) for c in classes.values()] or [0])})
