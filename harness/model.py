"""Abstract hierarchical designs (plain Python data, no spydrnet) used as oracles for the readers.

design = {"name": (id, orig|None), "libs": [lib], "top": (cell_id, lib_id), "design_name": (id, orig|None)}
lib    = {"name": (id, orig|None), "cells": [cell], "external": bool}
cell   = {"name": (id, orig|None), "ports": [port], "insts": [inst], "nets": [net]}
port   = {"name": (id, orig|None), "width": int, "array": bool, "dir": "INPUT"|"OUTPUT"|"INOUT", "base": int}
inst   = {"name": (id, orig|None), "cell": id, "lib": id, "props": [((id, orig|None), type, value)]}
net    = {"base": (id, name)|None, "index": int|None, "name": (id, orig|None), "joined": [(inst_id|None, port_id, bit)]}
Bus nets are several net records sharing "base" with distinct "index"."""


def gen_design(r, ncells=None, nlibs=None):
    uid = [0]

    def ident(prefix):
        uid[0] += 1
        return "%s%d" % (prefix, uid[0])

    last = {}

    def namedef(prefix, weird=0.3):
        i = ident(prefix)
        prev, last[prefix] = last.get(prefix), i
        if prev is not None and r.random() < 0.08:
            # the original name differs from the (usually sibling's) previous identifier only in letter case: legal, since
            # identifiers are case-insensitive but names are not - the writer had to rename one of  ack / Ack
            return (i, prev.capitalize() if prev.capitalize() != prev else prev.upper())
        if r.random() < 0.03:
            # identifiers exactly at the length limit (255 characters, 256 with the '&' escape)
            i = r.choice([i + "x" * (255 - len(i)), "&" + i + "y" * (255 - len(i))])
            last[prefix] = i
            return (i, None)
        if r.random() < 0.07:
            # names that start with a digit or an underscore: the identifier carries the '&' escape (letters of either case)
            o = r.choice(["_%s", "9%s", "_9%s", "0_%s"]) % i.capitalize()
            last[prefix] = "&" + o
            return ("&" + o, o)
        if r.random() < weird:
            return (i, r.choice(["%s 50%%", "%s%%pct", "%s\tcol", "%s[x]", "%s.orig", "\\%s ", "%s/sub", "%s name", "$%s", "%s_o", "o_%s", "n_%s"]) % i)
        return (i, None)
    nlibs = nlibs or r.choice([1, 2, 2, 3])
    libs = [{"name": namedef("lib", 0.2), "cells": [], "external": (k == 0 and r.random() < 0.2)} for k in range(nlibs)]
    cells = []      # (lib index, cell)
    shared_buses = []
    li = 0
    ncells = ncells or r.randint(2, 8)
    for k in range(ncells):
        if r.random() < 0.3:
            li = r.randint(li, nlibs - 1)
        leaf = k < max(1, ncells // 3)
        cname = namedef("CELL" if r.random() < 0.5 else "cell", 0.2)
        elsewhere = [c for (l2, c) in cells if l2 != li and
                     all(c["name"][0].lower() != c3["name"][0].lower() for c3 in libs[li]["cells"])]
        if elsewhere and r.random() < 0.25:
            # the same cell identifier may be declared in several libraries (each library is its own scope)
            cname = (r.choice(elsewhere)["name"][0], cname[1])
        cell = {"name": cname, "ports": [], "insts": [], "nets": []}
        for j in range(r.randint(1, 4)):
            w = r.choice([1, 1, 1, 2, 3, 4])
            arr = w > 1 or r.random() < 0.15
            base = r.choice([0, 0, 1, 4]) if arr else 0
            nm = ident("p")
            orig = None
            if arr and r.random() < 0.7:
                orig = "%s[%d:%d]" % (nm, base + w - 1, base)
            elif r.random() < 0.15:
                orig = nm + ".o"
            cell["ports"].append({"name": (nm, orig), "width": w, "array": arr, "dir": r.choice(["INPUT", "OUTPUT", "INOUT"]),
                                  "base": base if orig and "[" in orig else 0})
        if not leaf and cells:
            for j in range(r.randint(1, 4)):
                tl, tc = r.choice(cells)
                props = []
                for q in range(r.choice([0, 0, 1, 2])):
                    t = r.choice(["string", "integer", "boolean"])      # C05's quantifier: string/integer/boolean (number types: see DESIGN 7)
                    v = {"string": r.choice(["8'hA5", "soft lut", "", "x(y)", "a\tb"]), "integer": r.choice([0, 7, -3, 123456789012, 18446744073709551615, 9007199254740993]),
                         "boolean": r.choice([True, False])}[t]
                    props.append((namedef("PROP", 0.3), t, v))
                cell["insts"].append({"name": namedef("inst", 0.3), "cell": tc["name"][0], "lib": libs[tl]["name"][0], "props": props,
                                      "_cell": tc})
            # endpoints
            eps = [(None, p["name"][0], b) for p in cell["ports"] for b in range(p["width"])]
            for ins in cell["insts"]:
                if r.random() < 0.2:
                    continue        # a spare instance: declared, connected to nothing
                eps += [(ins["name"][0], p["name"][0], b) for p in ins["_cell"]["ports"] for b in range(p["width"])]
            r.shuffle(eps)
            nets = []
            # scalar nets
            lookalike = None
            for j in range(r.randint(0, 4)):
                k2 = min(len(eps), r.choice([0, 1, 2, 2, 3, 5]))
                joined, eps = eps[:k2], eps[k2:]
                nm_ = namedef("net", 0.3)
                if r.random() < 0.2:
                    # a plain (un-renamed) net whose identifier merely LOOKS like a bus bit (st_2_, st_5_): only a rename to
                    # name[i] makes a bit net - these stay scalar nets of their own
                    lookalike = lookalike or ident("st")
                    nm_ = ("%s_%d_" % (lookalike, 2 + 3 * j), None)
                nets.append({"base": None, "index": None, "name": nm_, "joined": joined})
            # bus nets: bits in random order, possibly with gaps
            prev_bus = None
            mine = []
            for j in range(r.randint(0, 2)):
                bid = ident("bus")
                if r.random() < 0.2:
                    # identifiers that sanitising produces from names like p..q[0] or cnt_[0]: two underscores in a row, one at the end
                    bid = r.choice([ident("p__q"), ident("cnt") + "_", ident("a_") + "__b"])
                x = r.random()
                bname = bid if x < 0.5 else (bid + "$o" if x < 0.8 else "%s[%d]" % (bid, r.randint(0, 3)))   # 2-D style base names
                free_ = [sb for sb in shared_buses if sb not in mine]
                if free_ and r.random() < 0.5:
                    # the usual thing: cell after cell has a bus called  data  (same identifier, same name, another cell)
                    bid, bname = r.choice(free_)
                elif r.random() < 0.5:
                    shared_buses.append((bid, bname))
                mine.append((bid, bname))
                if prev_bus is not None and prev_bus[0] != prev_bus[1] and r.random() < 0.6:
                    bname = prev_bus[0]         # crossing: this bus is NAMED like the identifier of its sibling (whose name differs)
                prev_bus = (bid, bname)
                off_ = r.choice([0, 0, 0, 254, 300])        # (bit numbers up to and beyond 256)
                idxs = [off_ + k_ for k_ in r.sample(range(0, 9), r.randint(1, 4))]
                for ix in idxs:
                    k2 = min(len(eps), r.choice([0, 1, 2, 3]))
                    joined, eps = eps[:k2], eps[k2:]
                    nets.append({"base": (bid, bname), "index": ix, "name": ("%s_%d_" % (bid, ix), "%s[%d]" % (bname, ix)),
                                 "joined": joined})
            r.shuffle(nets)
            for sb in mine:
                # ... whose bits stand first or last among the nets of the cell (next to the nets of the neighbouring cell)
                x = r.random()
                if x < 0.6:
                    bits_ = [nt for nt in nets if nt["base"] == sb]
                    rest_ = [nt for nt in nets if nt["base"] != sb]
                    nets = bits_ + rest_ if x < 0.3 else rest_ + bits_
            cell["nets"] = nets
        libs[li]["cells"].append(cell)
        cells.append((li, cell))
    tl, tc = cells[-1]
    if tl < nlibs - 1 and r.random() < 0.4:
        # a decoy: another cell with the top cell's identifier in a library declared later
        l2 = r.randint(tl + 1, nlibs - 1)
        if all(c["name"][0].lower() != tc["name"][0].lower() for c in libs[l2]["cells"]):
            libs[l2]["cells"].append({"name": (tc["name"][0], None), "ports": [
                {"name": (ident("p"), None), "width": 1, "array": False, "dir": "INPUT", "base": 0}], "insts": [], "nets": []})
    return {"name": namedef("design", 0.2), "libs": libs, "top": (tc["name"][0], libs[tl]["name"][0]),
            "design_name": namedef("top", 0.2)}


def expected(design):
    """The structure the EDIF reader must build for `design` (keys lower-cased where EDIF is case-insensitive)."""
    def nm(nd):
        return nd[1] if nd[1] is not None else nd[0]
    out = {"name": nm(design["name"]), "libs": {}, "top": (design["top"][0].lower(), design["top"][1].lower(), nm(design["design_name"]))}
    for L in design["libs"]:
        cells = {}
        for C in L["cells"]:
            ports = [(nm(p["name"]), p["name"][0], p["dir"], p["width"], p["array"]) for p in C["ports"]]
            insts = {}
            for i in C["insts"]:
                props = []
                for nd, t, v in i["props"]:
                    d = {"identifier": nd[0], "value": (v[0] * 10.0 ** v[1]) if t == "number_e" else v}
                    if nd[1] is not None:
                        d["original_identifier"] = nd[1]
                    props.append(d)
                insts[i["name"][0].lower()] = (nm(i["name"]), i["cell"].lower(), i["lib"].lower(), props)
            nets = {}
            buses = {}
            for N in C["nets"]:
                j = [(a.lower() if a else None, b.lower(), c) for a, b, c in N["joined"]]
                if N["base"] is None:
                    nets[N["name"][0].lower()] = (nm(N["name"]), 1, 0, False, [j])
                else:
                    buses.setdefault(N["base"], {})[N["index"]] = j
            for (bid, bname), bits in buses.items():
                lo, hi = min(bits), max(bits)
                nets[bid.lower()] = (bname, hi - lo + 1, lo, True, [bits.get(k, []) for k in range(lo, hi + 1)])
            cells[C["name"][0].lower()] = {"name": nm(C["name"]), "ports": ports, "insts": insts, "nets": nets}
        out["libs"][L["name"][0].lower()] = {"name": nm(L["name"]), "cells": cells}
    return out
