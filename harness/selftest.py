"""setup_cmd: nothing to build (pure stdlib); verify the interpreter, the repo import and the schemas of our files."""
import os, sys, json
sys.path.insert(0, os.path.dirname(os.path.dirname(os.path.abspath(__file__))))
from harness import common
common.setup_env()
import spydrnet as sdn
assert sys.version_info >= (3, 12), sys.version
assert os.path.realpath(sdn.__file__).startswith(os.path.realpath(common.REPO)), sdn.__file__
json.load(open(os.path.join(common.VERIF, "MANIFEST.json")))
json.load(open(os.path.join(common.VERIF, "known_findings.json")))
os.makedirs(os.path.join(common.VERIF, "evidence"), exist_ok=True)
print("selftest ok: spydrnet from", os.path.dirname(sdn.__file__), "python", sys.version.split()[0])
