"""Identity-level snapshot of a Universe and a differ that names the first differing fact."""
import copy

import spydrnet as sdn


def _i(x):
    return None if x is None else id(x)


def _data(x):
    out = {}
    for k in x:
        v = x[k]
        try:
            out[k] = copy.deepcopy(v)
        except Exception:
            out[k] = repr(v)
    return out


def namespace_tables(u):
    """Hooked state: the namespace manager's name tables (scope -> element type -> name -> element id),
    for the scopes that belong to the universe."""
    nm = sdn.namespace_manager
    out = {}
    mine = set(id(x) for x in u.netlists) | set(id(x) for x in u.libs) | set(id(x) for x in u.defs)
    try:
        for parent, ns in list(nm.namespaces.items()):
            if id(parent) not in mine:
                continue
            t = {}
            for attr in ("namespaces", "edif_namespaces"):
                tab = getattr(ns, attr, None)
                if tab:
                    for typ, names in tab.items():
                        for name, el in names.items():
                            t[(attr, typ.__name__, name)] = id(el)
            out[id(parent)] = t
    except AttributeError:
        return None
    return out


LOOKUP_FUNCS = None


def public_lookups(u, alphabet, keys=(".NAME", "EDIF.identifier")):
    """Answers of exact-name lookups through the public get_* functions for every scope in the universe."""
    out = {}
    for n in u.netlists:
        for k in keys:
            for v in alphabet:
                out[("lib", id(n), k, v)] = tuple(id(x) for x in sdn.get_libraries(n, v, key=k))
    for l in u.libs:
        for k in keys:
            for v in alphabet:
                out[("def", id(l), k, v)] = tuple(id(x) for x in sdn.get_definitions(l, v, key=k))
    for d in u.defs:
        for k in keys:
            for v in alphabet:
                out[("port", id(d), k, v)] = tuple(id(x) for x in sdn.get_ports(d, v, key=k))
                out[("cable", id(d), k, v)] = tuple(id(x) for x in sdn.get_cables(d, v, key=k))
                out[("inst", id(d), k, v)] = tuple(id(x) for x in sdn.get_instances(d, v, key=k))
    return out


def snap(u, tables=True, lookups=None):
    s = {}
    for n in u.netlists:
        s[("netlist.libraries", id(n))] = [id(x) for x in n.libraries]
        s[("netlist.top_instance", id(n))] = _i(n.top_instance)
        s[("data", id(n))] = _data(n)
    for l in u.libs:
        s[("library.netlist", id(l))] = _i(l.netlist)
        s[("library.definitions", id(l))] = [id(x) for x in l.definitions]
        s[("data", id(l))] = _data(l)
    for d in u.defs:
        s[("definition.library", id(d))] = _i(d.library)
        s[("definition.ports", id(d))] = [id(x) for x in d.ports]
        s[("definition.cables", id(d))] = [id(x) for x in d.cables]
        s[("definition.children", id(d))] = [id(x) for x in d.children]
        s[("definition.references", id(d))] = sorted(id(x) for x in d.references)
        s[("data", id(d))] = _data(d)
    for p in u.ports:
        s[("port", id(p))] = (_i(p.definition), [id(x) for x in p.pins], p.direction, p.is_downto, p._is_scalar
                              if hasattr(p, "_is_scalar") else p.is_scalar, p.lower_index)
        s[("data", id(p))] = _data(p)
    for c in u.cables:
        s[("cable", id(c))] = (_i(c.definition), [id(x) for x in c.wires], c.is_downto, c._is_scalar
                               if hasattr(c, "_is_scalar") else c.is_scalar, c.lower_index)
        s[("data", id(c))] = _data(c)
    for i in u.insts:
        s[("instance", id(i))] = (_i(i.parent), _i(i.reference), [(_i(op.inner_pin), id(op)) for op in i.pins],
                                 bool(i.is_top_instance))
        s[("data", id(i))] = _data(i)
    for x in u.ipins:
        s[("innerpin", id(x))] = (_i(x.port), _i(x.wire))
    for x in u.opins:
        s[("outerpin", id(x))] = (_i(x.instance), _i(x.inner_pin), _i(x.wire))
    for w in u.wires:
        s[("wire", id(w))] = (_i(w.cable), [id(p) for p in w.pins])
    s[("policy",)] = sdn.namespace_manager.default
    if tables:
        t = namespace_tables(u)
        if t is not None:
            for k, v in t.items():
                s[("nametable", k)] = v
    if lookups is not None:
        for k, v in public_lookups(u, lookups).items():
            s[("lookup",) + k] = v
    return s


def diff(a, b, ignore_new=True):
    """First fact present in `a` whose value differs in `b` (facts about objects created in between are
    ignored unless ignore_new is False)."""
    for k, v in a.items():
        if k not in b:
            if k[0] == "nametable" and not v:
                continue
            return k, v, "<absent>"
        if b[k] != v:
            return k, v, b[k]
    if not ignore_new:
        for k in b:
            if k not in a:
                return k, "<absent>", b[k]
    return None
