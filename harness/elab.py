"""Independent elaboration of a netlist: occurrence tree below the top instance and a union-find over
hierarchical wires joined across every instance-pin boundary.  Written against the public read API only."""
import spydrnet as sdn
from spydrnet.ir.outerpin import OuterPin as BaseOuterPin


def is_leaf_def(d):
    """The documented meaning of 'leaf', read off the containers themselves (never the library's own is_leaf answer)."""
    return len(d.children) == 0 and len(d.cables) == 0


class UF:
    def __init__(self):
        self.p = {}

    def find(self, x):
        p = self.p
        if x not in p:
            p[x] = x
            return x
        r = x
        while p[r] != r:
            r = p[r]
        while p[x] != r:
            p[x], x = r, p[x]
        return r

    def union(self, a, b):
        a, b = self.find(a), self.find(b)
        if a != b:
            self.p[a] = b


class Elab:
    """occ: list of paths (tuples of Instance objects, top excluded); () is the top occurrence itself.
    Hierarchical wire node = ('w', pid, id(wire)) where pid = tuple of instance ids."""

    def __init__(self, netlist, max_occ=20000):
        self.n = netlist
        self.top = netlist.top_instance
        self.uf = UF()
        self.occ = []            # all instance paths below top
        self.leaf_occ = []       # paths whose last instance is a leaf
        self.hier_occ = [()]     # paths (incl. ()) whose definition is expanded
        self.objs = {}           # id -> object (keeps what ids refer to)
        self.hwires = []         # (path, wire)
        self.endpoints = []      # endpoint nodes
        self.truncated = False
        self._walk(self.top, (), max_occ)

    @staticmethod
    def pid(path):
        return tuple(id(i) for i in path)

    def _walk(self, inst, path, max_occ):
        d = inst.reference
        pid = self.pid(path)
        uf = self.uf
        for c in d.cables:
            for w in c.wires:
                node = ("w", pid, id(w))
                uf.find(node)
                self.hwires.append((path, w))
                for p in w.pins:
                    if isinstance(p, BaseOuterPin):
                        child, ip = p.instance, p.inner_pin
                        cpid = pid + (id(child),)
                        if is_leaf_def(child.reference):
                            uf.union(node, ("e", cpid, id(ip)))
                        elif ip.wire is not None:
                            uf.union(node, ("w", cpid, id(ip.wire)))
                    elif not path:
                        uf.union(node, ("e", (), id(p)))
        if not path:
            for port in d.ports:
                for ip in port.pins:
                    e = ("e", (), id(ip))
                    uf.find(e)
                    self.endpoints.append(e)
                    self.objs[id(ip)] = ip
        for ch in d.children:
            cp = path + (ch,)
            self.occ.append(cp)
            if len(self.occ) > max_occ:
                self.truncated = True
                return
            r = ch.reference
            if is_leaf_def(r):
                self.leaf_occ.append(cp)
                cpid = self.pid(cp)
                for port in r.ports:
                    for ip in port.pins:
                        e = ("e", cpid, id(ip))
                        uf.find(e)
                        self.endpoints.append(e)
                        self.objs[id(ip)] = ip
            else:
                self.hier_occ.append(cp)
                self._walk(ch, cp, max_occ)

    # ---- projections ---------------------------------------------------------------------------------
    def index_path(self, path):
        out = []
        parent = self.top.reference
        for i in path:
            out.append(next(k for k, c in enumerate(parent.children) if c is i))
            parent = i.reference
        return tuple(out)

    def name_path(self, path):
        return tuple(i.name for i in path)

    def partition(self, keyfn, pinkey=None):
        """Partition of endpoints into connected classes; endpoints renamed by keyfn(path)->key and, optionally,
        pinkey(inner_pin)->key (default: identity of the inner pin)."""
        by_pid = {self.pid(p): p for p in self.occ}
        by_pid[()] = ()
        groups = {}
        for e in self.endpoints:
            root = self.uf.find(e)
            pk = e[2] if pinkey is None else pinkey(self.objs[e[2]])
            groups.setdefault(root, set()).add((keyfn(by_pid[e[1]]), pk))
        return set(frozenset(g) for g in groups.values())

    def wire_classes(self):
        """root -> list of (path, wire)"""
        cl = {}
        for path, w in self.hwires:
            cl.setdefault(self.uf.find(("w", self.pid(path), id(w))), []).append((path, w))
        return cl


def enumerate_occurrences(netlist):
    """Every occurrence in the elaborated design, as item sequences starting with the top instance:
    instances, ports, pins, cables, wires (independent recursive enumeration for C11)."""
    top = netlist.top_instance
    out = {"instances": [], "ports": [], "pins": [], "cables": [], "wires": []}

    def walk(seq):
        inst = seq[-1]
        out["instances"].append(seq)
        d = inst.reference
        if d is None:
            return
        for p in d.ports:
            out["ports"].append(seq + (p,))
            for x in p.pins:
                out["pins"].append(seq + (p, x))
        for c in d.cables:
            out["cables"].append(seq + (c,))
            for w in c.wires:
                out["wires"].append(seq + (c, w))
        for ch in d.children:
            walk(seq + (ch,))
    if top is not None:
        walk((top,))
    return out
