"""Independent EDIF 2 0 0 writer for abstract designs (model.py).  Never imports spydrnet.  Style is randomised
but legal: keyword and identifier-reference case, rename constructs, comment placement, whitespace, bit-net
order (as given by the design), libraries written as library or external."""


def write(design, r, style=True):
    out = []

    def kw(word):
        if not style:
            return word
        c = r.random()
        return word if c < 0.5 else (word.lower() if c < 0.75 else word.upper())

    def ref(ident):
        """a reference to an identifier, possibly in another letter case (EDIF is case-insensitive)"""
        if style and r.random() < 0.3:
            return ident.swapcase() if r.random() < 0.5 else ident.upper()
        return ident

    def nd(namedef):
        i, o = namedef
        if o is None:
            return i
        return "(%s %s \"%s\")" % (kw("rename"), i, o)

    def sp():
        if not style:
            return " "
        return r.choice([" ", " ", "\n", "  ", "\n\t", " \n "])

    def comment():
        if style and r.random() < 0.25:
            c = r.choice(["note", "a (b) c", "", "x ; y", None, None, 2, 3])
            if isinstance(c, int):
                # a comment may hold several strings
                return "(%s %s)%s" % (kw("comment"), sp().join('"line %d"' % k_ for k_ in range(c)), sp())
            if c is None:
                return "(%s)%s" % (kw("comment"), sp())        # a comment may hold zero strings
            return "(%s \"%s\")%s" % (kw("comment"), c, sp())
        return ""
    w = out.append
    w("(%s %s%s(%s 2 0 0)%s(%s 0)%s(%s (%s 0)%s)%s" % (kw("edif"), nd(design["name"]), sp(), kw("edifVersion"), sp(), kw("edifLevel"), sp(),
                                                         kw("keywordMap"), kw("keywordLevel"), "", sp()))
    if not style or r.random() < 0.7:
        w("(%s (%s (%s 2024 1 2 3 4 5)%s(%s \"gen\" (%s \"1.0\"))%s))%s" % (kw("status"), kw("written"), kw("timeStamp"), sp(), kw("program"),
                                                                           kw("version"), (" " + comment()).rstrip(), sp()))
    for L in design["libs"]:
        w(comment())
        w("(%s %s%s(%s 0)%s(%s (%s))%s" % (kw("external" if L["external"] else "library"), nd(L["name"]), sp(), kw("edifLevel"), sp(),
                                           kw("technology"), kw("numberDefinition"), sp()))
        for C in L["cells"]:
            w(comment())
            w("(%s %s%s(%s %s)%s" % (kw("cell"), nd(C["name"]), sp(), kw("cellType"), kw("GENERIC"), sp()))
            w("(%s %s%s(%s %s)%s" % (kw("view"), "netlist" if r.random() < 0.7 or not style else "NetList", sp(), kw("viewType"), kw("NETLIST"), sp()))
            w("(%s%s" % (kw("interface"), sp()))
            for p in C["ports"]:
                w(comment())
                if p["array"]:
                    head = "(%s %s %d)" % (kw("array"), nd(p["name"]), p["width"])
                else:
                    head = nd(p["name"])
                w("(%s %s%s(%s %s)%s)%s" % (kw("port"), head, sp(), kw("direction"), kw(p["dir"]), (" " + comment()).rstrip(), sp()))
            w(")%s" % sp())
            if C["insts"] or C["nets"]:
                w("(%s%s" % (kw("contents"), sp()))
                for i in C["insts"]:
                    w(comment())
                    w("(%s %s%s(%s %s (%s %s%s))%s" % (
                        kw("instance"), nd(i["name"]), sp(), kw("viewRef"), ref("netlist"), kw("cellRef"), ref(i["cell"]),
                        (" (%s %s)" % (kw("libraryRef"), ref(i["lib"]))) if (i["lib"] != L["name"][0] or r.random() < 0.6 or not style) else "", sp()))
                    for pn, t, v in i["props"]:
                        w(comment())            # comments may stand between the attributes of an instance
                        if t == "string":
                            tv = "(%s \"%s\")" % (kw("string"), v)
                        elif t == "integer":
                            tv = "(%s %d)" % (kw("integer"), v)
                        elif t == "number":
                            tv = "(%s %d)" % (kw("number"), v)
                        elif t == "number_e":
                            tv = "(%s (%s %d %d))" % (kw("number"), kw("e"), v[0], v[1])
                        else:
                            tv = "(%s (%s))" % (kw("boolean"), kw("true") if v else kw("false"))
                        own = " (%s \"me\")" % kw("owner") if style and r.random() < 0.2 else ""
                        w("(%s %s %s%s)%s" % (kw("property"), nd(pn), tv, own, sp()))
                    w(")%s" % sp())
                width = {}
                arr = {}
                for p in C["ports"]:
                    width[(None, p["name"][0])] = p["width"]
                    arr[(None, p["name"][0])] = p["array"]
                for i in C["insts"]:
                    for p in i["_cell"]["ports"]:
                        width[(i["name"][0], p["name"][0])] = p["width"]
                        arr[(i["name"][0], p["name"][0])] = p["array"]
                for N in C["nets"]:
                    w(comment())
                    w("(%s %s%s(%s%s" % (kw("net"), nd(N["name"]), sp(), kw("joined"), sp()))
                    for inst, port, bit in N["joined"]:
                        if arr[(inst, port)]:
                            pr = "(%s %s %d)" % (kw("member"), ref(port), bit)
                        else:
                            pr = ref(port)
                        if inst is None:
                            w("(%s %s)%s" % (kw("portRef"), pr, sp()))
                        else:
                            w("(%s %s (%s %s))%s" % (kw("portRef"), pr, kw("instanceRef"), ref(inst), sp()))
                    w(")%s)%s" % ((" " + comment()).rstrip(), sp()))
                w(")%s" % sp())
            w(")%s)%s" % (sp(), sp()))
        w(")%s" % sp())
    w("(%s %s%s(%s %s (%s %s)))%s" % (kw("design"), nd(design["design_name"]), sp(), kw("cellRef"), design["_top_ref"][0],
                                      kw("libraryRef"), design["_top_ref"][1], sp()))
    w(comment())
    if r.random() < 0.5:
        w("(%s \"after the design\")%s" % (kw("comment"), sp()))        # the file goes on after the design construct
    w(")\n")
    return "".join(out)
