"""Strong-reference registry of every IR object a workload has touched, plus the closure reachable from
them through the public read API.  Pools are insertion-ordered lists (deterministic choice by index)."""

KINDS = ("netlists", "libs", "defs", "ports", "cables", "insts", "ipins", "opins", "wires")


class Universe:
    def __init__(self):
        for k in KINDS:
            setattr(self, k, [])
        self._ids = {k: set() for k in KINDS}

    def add(self, kind, obj):
        if obj is None:
            return obj
        s = self._ids[kind]
        if id(obj) not in s:
            s.add(id(obj))
            getattr(self, kind).append(obj)
        return obj

    def add_any(self, obj):
        import spydrnet as sdn
        from spydrnet.ir.netlist import Netlist
        from spydrnet.ir.library import Library
        from spydrnet.ir.definition import Definition
        from spydrnet.ir.port import Port
        from spydrnet.ir.cable import Cable
        from spydrnet.ir.instance import Instance
        from spydrnet.ir.innerpin import InnerPin
        from spydrnet.ir.outerpin import OuterPin
        from spydrnet.ir.wire import Wire
        for cls, kind in ((Netlist, "netlists"), (Library, "libs"), (Definition, "defs"), (Port, "ports"),
                          (Cable, "cables"), (Instance, "insts"), (InnerPin, "ipins"), (OuterPin, "opins"),
                          (Wire, "wires")):
            if isinstance(obj, cls):
                return self.add(kind, obj)
        return obj

    def close(self):
        """Close the registry under the public read API (fixpoint of rescan)."""
        n = -1
        while n != self.size():
            n = self.size()
            self.rescan()
        return self

    def rescan(self):
        """Containers may have gained members since the last scan: re-walk everything once."""
        for n in list(self.netlists):
            for l in n.libraries:
                self.add("libs", l)
            self.add("insts", n.top_instance)
        for l in list(self.libs):
            self.add("netlists", l.netlist)
            for d in l.definitions:
                self.add("defs", d)
        for d in list(self.defs):
            self.add("libs", d.library)
            for p in d.ports:
                self.add("ports", p)
            for c in d.cables:
                self.add("cables", c)
            for ch in d.children:
                self.add("insts", ch)
            for r in d.references:
                self.add("insts", r)
        for p in list(self.ports):
            self.add("defs", p.definition)
            for x in p.pins:
                self.add("ipins", x)
        for c in list(self.cables):
            self.add("defs", c.definition)
            for w in c.wires:
                self.add("wires", w)
        for x in list(self.insts):
            self.add("defs", x.parent)
            self.add("defs", x.reference)
            for op in x.pins:
                self.add("opins", op)
        for x in list(self.ipins):
            self.add("ports", x.port)
            self.add("wires", x.wire)
        for x in list(self.opins):
            self.add("insts", x.instance)
            self.add("ipins", x.inner_pin)
            self.add("wires", x.wire)
        for w in list(self.wires):
            self.add("cables", w.cable)
            for p in w.pins:
                self.add_any(p)
        return self

    def size(self):
        return sum(len(getattr(self, k)) for k in KINDS)

    @classmethod
    def of(cls, *roots):
        u = cls()
        for r in roots:
            u.add_any(r)
        return u.close()
