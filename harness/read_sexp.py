"""Independent s-expression reader for EDIF 2 0 0 netlist views -> abstract design (plain dicts/tuples).
Does not import spydrnet.  Used to cross-check files written by the EDIF composer and to derive the abstract
model of bundled .edf examples."""


def tokenize(text):
    toks = []
    i, n = 0, len(text)
    while i < n:
        c = text[i]
        if c in " \t\r\n":
            i += 1
        elif c in "()":
            toks.append(c)
            i += 1
        elif c == '"':
            j = text.index('"', i + 1)
            toks.append(text[i:j + 1])
            i = j + 1
        else:
            j = i
            while j < n and text[j] not in ' \t\r\n()"':
                j += 1
            toks.append(text[i:j])
            i = j
    return toks


def parse(text):
    toks = tokenize(text)
    pos = [0]

    def rd():
        t = toks[pos[0]]
        pos[0] += 1
        if t == "(":
            lst = []
            while toks[pos[0]] != ")":
                lst.append(rd())
            pos[0] += 1
            return lst
        if t == ")":
            raise ValueError("unbalanced )")
        return t
    tree = rd()
    if pos[0] != len(toks):
        raise ValueError("trailing tokens")
    return tree


def kw(x):
    return x[0].lower() if isinstance(x, list) and x and isinstance(x[0], str) else None


def namedef(x):
    """identifier or (rename identifier "original") -> (identifier, original|None)"""
    if isinstance(x, list):
        assert kw(x) == "rename", x
        return (x[1], x[2][1:-1])
    return (x, None)


def subs(x, key):
    return [y for y in x[1:] if kw(y) == key]


def value_of(tv):
    k = kw(tv)
    if k == "string":
        return ("string", tv[1][1:-1])
    if k == "integer":
        return ("integer", int(tv[1]))
    if k == "boolean":
        return ("boolean", kw(tv[1]) == "true")
    if k == "number":
        return ("number", tv[1])
    return (k, None)


def design_of(tree):
    assert kw(tree) == "edif"
    out = {"name": namedef(tree[1]), "libs": [], "design": None}
    for lib in tree[2:]:
        k = kw(lib)
        if k in ("library", "external"):
            L = {"name": namedef(lib[1]), "cells": []}
            for cell in subs(lib, "cell"):
                C = {"name": namedef(cell[1]), "ports": [], "insts": [], "nets": [], "view": None}
                for view in subs(cell, "view"):
                    C["view"] = namedef(view[1])[0]
                    for itf in subs(view, "interface"):
                        for port in subs(itf, "port"):
                            nd = port[1]
                            if kw(nd) == "array":
                                nm = namedef(nd[1])
                                width, arr = int(nd[2]), True
                            else:
                                nm = namedef(nd)
                                width, arr = 1, False
                            d = subs(port, "direction")
                            C["ports"].append({"name": nm, "width": width, "array": arr,
                                               "dir": d[0][1].upper() if d else None})
                    for cont in subs(view, "contents"):
                        for inst in subs(cont, "instance"):
                            vr = subs(inst, "viewref")[0]
                            cr = subs(vr, "cellref")[0]
                            lr = subs(cr, "libraryref")
                            props = []
                            for p in subs(inst, "property"):
                                props.append((namedef(p[1]),) + value_of(p[2]))
                            C["insts"].append({"name": namedef(inst[1]), "view": vr[1], "cell": cr[1],
                                               "lib": lr[0][1] if lr else None, "props": props})
                        for net in subs(cont, "net"):
                            joined = []
                            for j in subs(net, "joined"):
                                for pr in subs(j, "portref"):
                                    if kw(pr[1]) == "member":
                                        pn, idx = namedef(pr[1][1])[0], int(pr[1][2])
                                    else:
                                        pn, idx = pr[1], None
                                    ir = subs(pr, "instanceref")
                                    joined.append((ir[0][1] if ir else None, pn, idx))
                            C["nets"].append({"name": namedef(net[1]), "joined": joined})
                L["cells"].append(C)
            out["libs"].append(L)
        elif k == "design":
            cr = subs(lib, "cellref")[0]
            lr = subs(cr, "libraryref")
            out["design"] = (namedef(lib[1]), cr[1], lr[0][1] if lr else None)
    return out
