"""API-level rebuild of a netlist: a faithful, independent copy made with public constructors only (so it is
registered with the namespace manager, unlike clone()).  Returns (copy, mapping old id -> new object)."""
import copy

import spydrnet as sdn
from spydrnet.ir.outerpin import OuterPin as BaseOuterPin

SKIP = (".NAME", ".NS")


def _data(src, dst):
    for k in src:
        if k in SKIP:
            continue
        dst[k] = copy.deepcopy(src[k])


def rebuild(n):
    m = {}
    c = sdn.Netlist(n.name)
    _data(n, c)
    m[id(n)] = c
    for l in n.libraries:
        cl = c.create_library(l.name)
        _data(l, cl)
        m[id(l)] = cl
        for d in l.definitions:
            cd = cl.create_definition(d.name)
            _data(d, cd)
            m[id(d)] = cd
            for p in d.ports:
                cp = cd.create_port(p.name, direction=p.direction, is_downto=p.is_downto, lower_index=p.lower_index)
                if len(p.pins):
                    cp.create_pins(len(p.pins))
                if len(p.pins) <= 1:
                    cp.is_scalar = p.is_scalar
                _data(p, cp)
                m[id(p)] = cp
                for a, b in zip(p.pins, cp.pins):
                    m[id(a)] = b
    for l in n.libraries:
        for d in l.definitions:
            cd = m[id(d)]
            for ch in d.children:
                cc = cd.create_child(ch.name, reference=m[id(ch.reference)] if ch.reference is not None else None)
                _data(ch, cc)
                m[id(ch)] = cc
            for cab in d.cables:
                ccab = cd.create_cable(cab.name, is_downto=cab.is_downto, lower_index=cab.lower_index)
                if len(cab.wires):
                    ccab.create_wires(len(cab.wires))
                if len(cab.wires) <= 1:
                    ccab.is_scalar = cab.is_scalar
                _data(cab, ccab)
                m[id(cab)] = ccab
                for w, cw in zip(cab.wires, ccab.wires):
                    m[id(w)] = cw
                    for p in w.pins:
                        if isinstance(p, BaseOuterPin):
                            cw.connect_pin(m[id(p.instance)].pins[m[id(p.inner_pin)]])
                        else:
                            cw.connect_pin(m[id(p)])
    t = n.top_instance
    if t is not None:
        if id(t) in m:
            c.top_instance = m[id(t)]
        else:
            ct = sdn.Instance(t.name)
            ct.reference = m[id(t.reference)] if t.reference is not None else None
            _data(t, ct)
            c.top_instance = ct
            m[id(t)] = ct
    return c, m
