"""Abstract structural-Verilog designs, an independent writer and the expected bit-level structure.
Never imports spydrnet.

Mod: name, ports [(name, dir, width)], nets {name: (msb, lsb)}, insts [Inst], assigns [(lhs atoms, rhs atoms)],
     prim (leaf cell: `celldefine or never declared), params {name: value-token}, attrs {k: v|None}
Inst: name, ref (module name), conns: dict port -> atoms (named map) or list of atoms per position (positional),
      params {name: token}, attrs {k: v|None}
atom: ('const', '0'|'1') | (net, hi, lo)   (MSB-first inside an expression)"""
import random
import re


class Mod:
    def __init__(self, name):
        self.name = name
        self.ports = []
        self.nets = {}
        self.insts = []
        self.assigns = []
        self.prim = False
        self.declared = True
        self.params = {}
        self.attrs = {}
        self.ansi = False


class Inst:
    def __init__(self, name, ref):
        self.name = name
        self.ref = ref
        self.conns = {}
        self.positional = None
        self.params = {}
        self.attrs = {}


def esc(r, base, features):
    if "escaped" in features and r.random() < 0.2:
        return "\\" + base + r.choice(["[3]", ".x", "$", "/y", "+"]) + " "
    return base


def gen_design(r, features=()):
    mods = []
    nprim = r.randint(1, 3)
    for k in range(nprim):
        m = Mod(esc(r, "PRIM%d" % k, features))       # also a `celldefine module may carry an escaped name
        m.prim = True
        for j in range(r.randint(1, 4)):
            m.ports.append(("p%d" % j, r.choice(["input", "output", "inout"]), r.choice([1, 1, 2, 4])))
        if "params" in features and r.random() < 0.4:
            # a header parameter may carry a range: #(parameter [3:0] INIT = 4'h8, parameter DEPTH = 8); the reader keys it "[3:0] INIT"
            m.params = {r.choice(["INIT", "INIT", "[3:0] INIT", "[7:0] INIT"]): r.choice(["4'h8", "16", "\"str\""])}
            for extra in r.sample(["WIDTH", "DEPTH", "MODE"], r.choice([0, 0, 1, 2])):
                m.params[extra] = r.choice(["8", "1'b0", "\"fast\""])
        if "undeclared" in features and r.random() < 0.4:
            m.declared = False
            if r.random() < 0.25:
                m.ports = []        # a never-declared cell that is only ever instantiated without connections:  MARK m0 ();
        if "attrs" in features and m.declared and r.random() < 0.35:
            m.attrs = rand_attrs(r)         # a `celldefine module carries (* *) attributes like any other module
        mods.append(m)
    nmod = r.randint(1, 5)
    for k in range(nmod):
        m = Mod("mod%d" % k)
        m.ansi = r.random() < 0.5
        for j in range(r.randint(1, 4)):
            w = r.choice([1, 1, 2, 3, 5])
            nm = esc(r, "io%d" % j, features)
            m.ports.append((nm, r.choice(["input", "output"]), w))
            m.nets[nm] = (w - 1, 0)
        for j in range(r.randint(0, 4)):
            lsb = r.choice([0, 0, 1, 3, -2, -1, 250])      # (any integers: a range may start below zero or beyond 255)
            w = r.choice([1, 1, 2, 4, 6])
            m.nets[esc(r, "n%d" % j, features)] = (lsb + w - 1, lsb)
        if "attrs" in features and r.random() < 0.3:
            m.attrs = rand_attrs(r)
        if "params" in features and r.random() < 0.3:
            # header parameters of an ordinary module, possibly ranged, several of them
            m.params = {r.choice(["INIT", "[3:0] INIT", "[7:0] SEL"]): r.choice(["4'h8", "16"])}
            for extra in r.sample(["WIDTH", "DEPTH", "MODE"], r.choice([0, 1, 2])):
                m.params[extra] = r.choice(["8", "1'b0", "\"fast\""])
        nonprim = [x for x in mods if not x.prim]
        for j in range(r.randint(0, 4)):
            ref = r.choice(mods)
            if j == 0 and nonprim and r.random() < 0.6:
                ref = nonprim[-1]          # chains: deep hierarchies (with 'shuffle': every declaration order)
            ins = Inst(esc(r, "u%d" % j, features), ref.name)
            positional = "positional" in features and r.random() < 0.3 and ref.declared
            conns = {}
            plist = []
            for (pn, pd, pw) in ref.ports:
                kind = r.random()
                if kind < 0.1 and not positional:
                    continue        # port omitted
                if kind < 0.2 and not positional:
                    conns[pn] = []
                    plist.append([])
                    continue        # .p()
                want = r.randint(1, pw)
                atoms = []
                tot = 0
                while tot < want:
                    nn = r.choice(list(m.nets))
                    hi, lo = m.nets[nn]
                    if "consts" in features and r.random() < 0.12:
                        atoms.append(("const", r.choice("01")))
                        tot += 1
                        continue
                    a = r.randint(lo, hi)
                    b = r.randint(lo, a)
                    if a - b + 1 > want - tot:
                        b = a - (want - tot) + 1
                    atoms.append((nn, a, b))
                    tot += a - b + 1
                conns[pn] = atoms
                plist.append(atoms)
            ins.conns = conns
            if positional:
                ins.positional = plist
                ins.conns = {pn: at for (pn, _, _), at in zip(ref.ports, plist)}
            if "params" in features and r.random() < 0.3:
                ins.params = {"INIT": r.choice(["8'hFF", "3", "\"a b\"", "\"C:\\\\mem\\\\boot.hex\"", "\"done\\n\""])}
                for extra in r.sample(["IS_C_INVERTED", "WIDTH", "LOC"], r.choice([0, 1, 2, 3])):
                    ins.params[extra] = r.choice(["1'b0", "12", "\"X1Y2\""])
            if "attrs" in features and r.random() < 0.3:
                ins.attrs = rand_attrs(r)
            m.insts.append(ins)
        if "assigns" in features:
            for j in range(r.randint(0, 2)):
                cands = [nn for nn, (hi, lo) in m.nets.items()]
                a, b = r.choice(cands), r.choice(cands)
                wa = m.nets[a][0] - m.nets[a][1] + 1
                wb = m.nets[b][0] - m.nets[b][1] + 1
                if r.random() < 0.6:
                    w = min(wa, wb)
                    la = (a, m.nets[a][1] + w - 1, m.nets[a][1])
                    lb = (b, m.nets[b][1] + w - 1, m.nets[b][1])
                else:
                    # sides of different width: Verilog aligns them at the least significant end
                    la = (a, m.nets[a][0], m.nets[a][1])
                    lb = (b, m.nets[b][0], m.nets[b][1])
                m.assigns.append(([la], [lb]))
        mods.append(m)
    # one root: the last module instantiates every otherwise unreferenced non-primitive module
    used = set(i.ref for mm in mods for i in mm.insts)
    root = mods[-1]
    for mm in mods[:-1]:
        if not mm.prim and mm.name not in used:
            ins = Inst("root_%s" % mm.name, mm.name)
            ins.conns = {}
            root.insts.append(ins)
    return mods


def fmt_atom(r, m, a, style=True):
    if a[0] == "const":
        return "1'b" + a[1]
    nn, hi, lo = a
    H, L = m.nets[nn]
    if hi == H and lo == L and (not style or r.random() < 0.5):
        return nn
    if hi == lo:
        if H == L and H == 0:
            return nn
        return "%s[%d]" % (nn, hi)
    return "%s[%d:%d]" % (nn, hi, lo)


def fmt_expr(r, m, atoms):
    if not atoms:
        return ""
    if len(atoms) == 1:
        return fmt_atom(r, m, atoms[0])
    return "{" + ", ".join(fmt_atom(r, m, a) for a in atoms) + "}"


ATTR_POOL = [("keep", None), ("mark", "\"yes\""), ("DONT_TOUCH", "\"true\""), ("flag", None), ("LOC", "\"X1Y2\"")]


def rand_attrs(r):
    """1-3 attributes, valued and value-less ones in any order"""
    return dict(r.sample(ATTR_POOL, r.choice([1, 1, 2, 3])))


def fmt_attrs(attrs, r=None):
    if not attrs:
        return ""
    items = [k if v is None else "%s = %s" % (k, v) for k, v in attrs.items()]
    if r is not None and len(items) > 1 and r.random() < 0.5:
        return "".join("(* %s *) " % x for x in items)         # one block per attribute
    return "(* " + ", ".join(items) + " *) "


def write(mods, r, features=()):
    order = list(mods)
    if "shuffle" in features:
        r.shuffle(order)
    out = []

    def comment():
        if "comments" in features and r.random() < 0.2:
            out.append(r.choice(["// a line comment", "/* a block\n   comment */"]))
    for m in order:
        if m.prim and not m.declared:
            continue
        comment()
        if m.prim:
            out.append("`celldefine")
        rng = lambda w: "[%d:0] " % (w - 1) if w > 1 else ""  # noqa: E731
        head = fmt_attrs(m.attrs, r) + "module %s " % m.name
        if m.params and m.declared:
            head += "#(" + ", ".join("parameter %s = %s" % kv for kv in m.params.items()) + ") "
        if m.ansi and not m.prim:
            out.append(head + "(%s);" % ", ".join("%s %s%s" % (d, rng(w), n) for n, d, w in m.ports))
        else:
            out.append(head + "(%s);" % ", ".join(n for n, d, w in m.ports))
            k = 0
            while k < len(m.ports):
                n, d, w = m.ports[k]
                group = [n]
                # several names in one declaration statement: input [3:0] a, b;
                while "grouped" in features and k + 1 < len(m.ports) and m.ports[k + 1][1:] == (d, w) and r.random() < 0.7:
                    k += 1
                    group.append(m.ports[k][0])
                out.append("  %s %s%s;" % (d, rng(w), ", ".join(group)))
                k += 1
        if not m.prim:
            for nn, (hi, lo) in m.nets.items():
                if any(nn == p[0] for p in m.ports) and r.random() < 0.5:
                    continue
                if "ascending" in features and hi > lo and random.Random("asc:%s:%s:%d" % (m.name, nn, len(out))).random() < 0.5:
                    # wire [0:3] a;  (ascending range: same bits, the higher index stays the more significant one for the reader)
                    out.append("  %s [%d:%d] %s;" % (random.Random("kw:%d" % len(out)).choice(["wire", "wire", "reg"]), lo, hi, nn))
                    continue
                out.append("  wire %s%s;" % ("[%d:%d] " % (hi, lo) if not (hi == 0 and lo == 0) else "", nn))
            comment()
            deferred = []
            for ins in m.insts:
                par = ""
                defp = []
                if ins.params:
                    par = "#(" + ", ".join(".%s(%s)" % kv for kv in ins.params.items()) + ") "
                    if "defparam" in features and r.random() < 0.5:
                        # the other documented spelling: defparam statements somewhere after the instance
                        par = ""
                        defp = ["  defparam %s.%s = %s;" % (ins.name, k_, v_) for k_, v_ in ins.params.items()]
                if ins.positional is not None:
                    items = [fmt_expr(r, m, at) for at in ins.positional]
                else:
                    items = [".%s(%s)" % (pn, fmt_expr(r, m, at)) for pn, at in ins.conns.items()]
                out.append("  %s%s %s%s (%s);" % (fmt_attrs(ins.attrs, r), ins.ref, par, ins.name, ", ".join(items)))
                if defp and r.random() < 0.5:
                    deferred += defp
                else:
                    out += defp
            out += deferred
            for lhs, rhs in m.assigns:
                out.append("  assign %s = %s;" % (fmt_expr(r, m, lhs), fmt_expr(r, m, rhs)))
        out.append("endmodule")
        if m.prim:
            # a directive line may carry trailing blanks or a comment
            out.append("`endcelldefine" + (r.choice(["  ", " // end of the cell", " /* cell */", "\t"]) if "comments" in features and r.random() < 0.4 else ""))
        out.append("")
    text = "\n".join(out)
    if "comments" in features:
        text = sprinkle_comments(text, r)
    if "escaped" in features:
        # any white space ends an escaped identifier: a tab or the end of the line as well as a blank
        def ws(mo):
            return mo.group(1) + (r.choice(["\t", "\n ", " \n"]) if r.random() < 0.2 else " ")
        text = re.sub(r"(\\[^\s\\]+) ", ws, text)
    return text


def comment_run(r):
    """1-3 adjacent comments (white space to the reader), block and line style mixed"""
    run = []
    for k in range(r.choice([1, 2, 2, 3])):
        run.append(r.choice(["/* c%d */" % k, "/* two\n   lines */", "// line %d\n" % k]))
    return " " + " ".join(run) + " "


def sprinkle_comments(text, r):
    """Comments INSIDE statements: after a comma of a port list / port map, after the module keyword, behind an attribute
    value, before the closing semicolon.  Lines with escaped identifiers are left alone (their trailing blank matters)."""
    lines = text.split("\n")
    for k, ln in enumerate(lines):
        if "\\" in ln or ln.lstrip().startswith(("//", "/*", "`")) or "comment */" in ln or r.random() > 0.25:
            continue
        x = r.random()
        if ln.startswith("module ") and x < 0.4:
            lines[k] = "module" + comment_run(r) + ln[len("module "):]
        elif '" *)' in ln and x < 0.5:
            lines[k] = ln.replace('" *)', '"' + comment_run(r) + "*)", 1)
        elif ", " in ln and '"' not in ln.split(", ", 1)[0]:
            lines[k] = ln.replace(", ", "," + comment_run(r), 1)
        elif ln.rstrip().endswith(");"):
            lines[k] = ln.rstrip()[:-2] + ")" + comment_run(r) + ";"
    return "\n".join(lines)


def bits_of(atoms):
    """LSB-first list of (net, index) for an expression given MSB-first."""
    bits = []
    for a in atoms:
        if a[0] == "const":
            bits.append(("\\<const%s> " % a[1], 0))
        else:
            nn, hi, lo = a
            for b in range(hi, lo - 1, -1):
                bits.append((nn, b))
    bits.reverse()
    return bits


def expected(mods):
    """per non-primitive module: ports, nets, conn {(inst, port, bit k) -> (net, index)}, assigns multiset."""
    exp = {}
    byname = {m.name: m for m in mods}
    for m in mods:
        if m.prim:
            continue
        conn = {}
        consts = set()
        for ins in m.insts:
            for pn, atoms in ins.conns.items():
                for k, nb in enumerate(bits_of(atoms)):
                    conn[(ins.name, pn, k)] = nb
                    if nb[0].startswith("\\<const"):
                        consts.add(nb[0])
        assigns = []
        for lhs, rhs in m.assigns:
            lb, rb = bits_of(lhs), bits_of(rhs)
            w = min(len(lb), len(rb))
            assigns.append((w, tuple(zip(lb[:w], rb[:w]))))
        exp[m.name] = {
            "ports": [(n, d, w, 0) for n, d, w in m.ports],
            "portconn": {(n, k): (n, k) for n, d, w in m.ports for k in range(w)},
            "nets": dict({nn: (hi - lo + 1, lo) for nn, (hi, lo) in m.nets.items()}, **{c: (1, 0) for c in consts}),
            "conn": conn,
            "assigns": sorted(assigns),
            # (a module is known under its name without the blank that ends an escaped identifier)
            "insts": {ins.name: (ins.ref.strip(), dict(ins.params), dict(ins.attrs)) for ins in m.insts},
            "params": dict(m.params), "attrs": dict(m.attrs),
        }
    return exp
