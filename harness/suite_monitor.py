"""pytest plugin: the repository's own test suite as one more workload for the C01 / C02 invariant monitors.

Loaded with  `-p harness.suite_monitor`  (PYTHONPATH=/verif, guard variable set).  The probe layer wraps the public
mutators of the IR; at outermost mutator exits the universe reachable from the call's subject is closed and
wf.check_c01 / wf.check_c02 are evaluated over it (every exit for small universes, a size-proportional stride for the
large example netlists).  Nothing is asserted inside the tests: findings go to the JSON report named by
VERIF_SUITE_REPORT and are judged by the check that launched the suite."""
import json
import os
import collections

from . import common

common.setup_env()
import spydrnet as sdn  # noqa: E402,F401

from . import probes, wf  # noqa: E402
from .universe import Universe  # noqa: E402

WHICH = os.environ.get("VERIF_SUITE_CHECKS", "c01,c02").split(",")
S = {"test": None, "calls": 0, "evals": 0, "exc_exits": 0, "skipped_stride": 0, "objects": 0,
     "findings": [], "per_label": collections.Counter(), "tests_with_evals": set(), "since": 0, "stride": 1}
MAX_FINDINGS = 200


def _is_proxy(x):
    from spydrnet.ir.outerpin import OuterPin
    if not isinstance(x, OuterPin):
        return False
    i, ip = x.instance, x.inner_pin
    if i is None or ip is None:
        return False
    try:
        return ip in i.pins and i.pins[ip] is not x
    except Exception:  # noqa: BLE001
        return False


def _post(label, a, k, r, e):
    S["calls"] += 1
    if e is not None:
        S["exc_exits"] += 1
    S["since"] += 1
    if S["since"] < S["stride"]:
        S["skipped_stride"] += 1
        return
    S["since"] = 0
    subject = a[0] if a else None
    if subject is None:
        return
    try:
        u = Universe()
        u.add_any(subject)
        for x in list(a[1:]) + list(k.values()) + [r]:
            for y in (x if isinstance(x, (list, tuple, set, frozenset)) else [x]):
                if _is_proxy(y):
                    continue    # a caller-owned handle (OuterPin.from_instance_and_inner_pin), not part of the netlist
                u.add_any(y)
        u.close()
        size = u.size()
        S["stride"] = max(1, size // 150)
        errs = (wf.check_c01(u) if "c01" in WHICH else []) + (wf.check_c02(u) if "c02" in WHICH else [])
    except Exception as ex:  # noqa: BLE001  (the walker met a state it cannot read: reported, not hidden)
        errs = [("walker-raised:%s" % type(ex).__name__, repr(ex)[:200])]
        size = -1
    S["evals"] += 1
    S["objects"] += max(size, 0)
    S["per_label"][label] += 1
    S["tests_with_evals"].add(S["test"])
    if errs and len(S["findings"]) < MAX_FINDINGS:
        S["findings"].append({"test": S["test"], "after": label, "raised": type(e).__name__ if e is not None else None,
                              "code": errs[0][0], "detail": errs[0][1][:300], "failing_facts": len(errs)})


def pytest_configure(config):
    probes.install()
    probes.State.post.append(_post)


def pytest_runtest_setup(item):
    S["test"] = item.nodeid
    S["stride"] = 1
    S["since"] = 0


def pytest_sessionfinish(session, exitstatus):
    out = os.environ.get("VERIF_SUITE_REPORT")
    if not out:
        return
    rep = {k: S[k] for k in ("calls", "evals", "exc_exits", "skipped_stride", "objects", "findings")}
    rep["installed"] = probes.State.installed
    rep["missing_wrappers"] = probes.State.missing
    rep["per_label"] = dict(S["per_label"])
    rep["tests_with_evals"] = len(S["tests_with_evals"])
    with open(out, "w") as f:
        json.dump(rep, f)
