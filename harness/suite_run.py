"""Runs the repository's own test suite as a workload under the invariant monitors of harness/suite_monitor.py and
folds what the monitors saw into a check's context (thorough tiers of C01 / C02)."""
import json
import os
import signal
import subprocess
import tempfile

from . import common


def suite_case(ctx, which, subset=None, timeout_s=1700):
    signal.alarm(0)   # this case has its own wall-clock limit (subprocess timeout -> inconclusive)
    fd, rep = tempfile.mkstemp(prefix="suite_rep_", suffix=".json")
    os.close(fd)
    env = dict(os.environ, PYTHONPATH=common.VERIF, VERIF_SUITE_REPORT=rep, VERIF_SUITE_CHECKS=which, PYTHONHASHSEED="0")
    env[common.GUARD] = "1"
    cmd = [common.PY, "-W", "ignore", "-m", "pytest", "-q", "-p", "no:cacheprovider", "-p", "harness.suite_monitor", "--timeout=900"]
    cmd += list(subset or [])
    try:
        try:
            subprocess.run(cmd, cwd=common.REPO, env=env, stdout=subprocess.DEVNULL, stderr=subprocess.DEVNULL, timeout=timeout_s)
        except subprocess.TimeoutExpired:
            ctx.note_inconclusive("monitored test suite exceeded %ds" % timeout_s)
            ctx.count("suite_timed_out")
            return
        try:
            r = json.load(open(rep))
        except (OSError, ValueError):
            ctx.note_inconclusive("monitored test suite wrote no report")
            return
    finally:
        try:
            os.unlink(rep)
        except OSError:
            pass
    if not r.get("installed") or not r.get("evals"):
        ctx.note_inconclusive("monitored test suite: probe layer not installed or no invariant evaluation")
        return
    ctx.count("suite_runs")
    ctx.count("suite_mutator_calls", r["calls"])
    ctx.count("suite_invariant_evals", r["evals"])
    ctx.count("suite_objects_walked", r["objects"])
    ctx.count("suite_tests_with_evals", r["tests_with_evals"])
    ctx.count("suite_exits_by_exception", r["exc_exits"])
    seen = set()
    for f in r["findings"]:
        key = "suite:%s@%s%s" % (f["code"], f["after"], ":raised" if f["raised"] else "")
        if key in seen:
            continue
        seen.add(key)
        ctx.violation(key, "%s | during %s | %d facts failing" % (f["detail"], f["test"], f["failing_facts"]))
    ctx.fingerprint(("suite", which), True)
