"""Canonical (address-free) forms of IR structures.

canon_full   - positional, name + data + order + shapes + connections (used for clone fidelity, C07)
canon_edif   - name-keyed, exactly the attributes C03 lists
"""
import copy

from spydrnet.ir.outerpin import OuterPin as BaseOuterPin


def data_of(x, drop=()):
    out = {}
    for k in x:
        if k in drop:
            continue
        v = x[k]
        try:
            out[k] = copy.deepcopy(v)
        except Exception:
            out[k] = repr(v)
    return out


def _bundle(b):
    return (b.is_downto, b.is_scalar, b.lower_index)


def canon_definition(d, ref_key):
    port_idx = {}
    for pi, p in enumerate(d.ports):
        for bi, x in enumerate(p.pins):
            port_idx[id(x)] = (pi, bi)
    child_idx = {id(c): ci for ci, c in enumerate(d.children)}
    wire_pos = {}
    for ci, c in enumerate(d.cables):
        for wi, w in enumerate(c.wires):
            wire_pos[id(w)] = (ci, wi)

    def pin_key(p):
        if isinstance(p, BaseOuterPin):
            ip = p.inner_pin
            inst = p.instance
            if ip is None or ip.port is None:
                return ("o", child_idx.get(id(inst), "foreign"), None)
            return ("o", child_idx.get(id(inst), "foreign"),
                    (list(x for x in ip.port.definition.ports).index(ip.port) if ip.port.definition is not None else None,
                     list(ip.port.pins).index(ip)))
        return ("i", port_idx.get(id(p), "foreign"))
    ports = [(p.name, p.direction.name, _bundle(p), len(p.pins), data_of(p),
              [wire_pos.get(id(x.wire)) if x.wire is not None else None for x in p.pins]) for p in d.ports]
    cables = [(c.name, _bundle(c), len(c.wires), data_of(c), [[pin_key(p) for p in w.pins] for w in c.wires]) for c in d.cables]
    children = []
    for ch in d.children:
        r = ch.reference
        pins = []
        if r is not None:
            for pi, p in enumerate(r.ports):
                for bi, ip in enumerate(p.pins):
                    op = ch.pins.get(ip)
                    pins.append((pi, bi, None if op is None else (wire_pos.get(id(op.wire), "foreign") if op.wire is not None else None)))
        children.append((ch.name, data_of(ch), ref_key(r), pins, [(list(ch.pins).index(op)) for op in []]))
    return {"name": d.name, "data": data_of(d), "ports": ports, "cables": cables, "children": children}


def canon_library(l, ref_key):
    return {"name": l.name, "data": data_of(l), "definitions": [canon_definition(d, ref_key) for d in l.definitions]}


def canon_netlist(n):
    pos = {}
    for li, l in enumerate(n.libraries):
        for di, d in enumerate(l.definitions):
            pos[id(d)] = (li, di)

    def ref_key(r):
        if r is None:
            return None
        return pos.get(id(r), ("outside", r.name))
    t = n.top_instance
    top = None
    if t is not None:
        where = None
        if t.parent is not None:
            where = (pos.get(id(t.parent), "outside"), list(t.parent.children).index(t))
        top = (t.name, data_of(t), ref_key(t.reference), where, len(t.pins))
    return {"name": n.name, "data": data_of(n), "top": top, "libraries": [canon_library(l, ref_key) for l in n.libraries]}


def first_diff(a, b, path=""):
    if type(a) is not type(b):
        return "%s: type %s vs %s" % (path, type(a).__name__, type(b).__name__)
    if isinstance(a, dict):
        for k in a:
            if k not in b:
                return "%s/%s: missing on the right" % (path, k)
            d = first_diff(a[k], b[k], "%s/%s" % (path, k))
            if d:
                return d
        for k in b:
            if k not in a:
                return "%s/%s: missing on the left" % (path, k)
        return None
    if isinstance(a, (list, tuple)):
        if len(a) != len(b):
            return "%s: length %d vs %d" % (path, len(a), len(b))
        for i, (x, y) in enumerate(zip(a, b)):
            d = first_diff(x, y, "%s[%d]" % (path, i))
            if d:
                return d
        return None
    if a != b:
        return "%s: %r vs %r" % (path, a, b)
    return None
