"""Canonical (address-free) forms of IR structures.

canon_full   - positional, name + data + order + shapes + connections (used for clone fidelity, C07)
canon_edif   - name-keyed, exactly the attributes C03 lists
"""
import copy

from spydrnet.ir.outerpin import OuterPin as BaseOuterPin


def data_of(x, drop=()):
    out = {}
    for k in x:
        if k in drop:
            continue
        v = x[k]
        try:
            out[k] = copy.deepcopy(v)
        except Exception:
            out[k] = repr(v)
    return out


def _bundle(b):
    return (b.is_downto, b.is_scalar, b.lower_index)


def canon_definition(d, ref_key):
    port_idx = {}
    for pi, p in enumerate(d.ports):
        for bi, x in enumerate(p.pins):
            port_idx[id(x)] = (pi, bi)
    child_idx = {id(c): ci for ci, c in enumerate(d.children)}
    wire_pos = {}
    for ci, c in enumerate(d.cables):
        for wi, w in enumerate(c.wires):
            wire_pos[id(w)] = (ci, wi)

    def pin_key(p):
        if isinstance(p, BaseOuterPin):
            ip = p.inner_pin
            inst = p.instance
            if ip is None or ip.port is None:
                return ("o", child_idx.get(id(inst), "foreign"), None)
            return ("o", child_idx.get(id(inst), "foreign"),
                    (list(x for x in ip.port.definition.ports).index(ip.port) if ip.port.definition is not None else None,
                     list(ip.port.pins).index(ip)))
        return ("i", port_idx.get(id(p), "foreign"))
    ports = [(p.name, p.direction.name, _bundle(p), len(p.pins), data_of(p),
              [wire_pos.get(id(x.wire)) if x.wire is not None else None for x in p.pins]) for p in d.ports]
    cables = [(c.name, _bundle(c), len(c.wires), data_of(c), [[pin_key(p) for p in w.pins] for w in c.wires]) for c in d.cables]
    children = []
    for ch in d.children:
        r = ch.reference
        pins = []
        if r is not None:
            for pi, p in enumerate(r.ports):
                for bi, ip in enumerate(p.pins):
                    op = ch.pins.get(ip)
                    pins.append((pi, bi, None if op is None else (wire_pos.get(id(op.wire), "foreign") if op.wire is not None else None)))
        children.append((ch.name, data_of(ch), ref_key(r), pins, [(list(ch.pins).index(op)) for op in []]))
    return {"name": d.name, "data": data_of(d), "ports": ports, "cables": cables, "children": children}


def canon_library(l, ref_key):
    return {"name": l.name, "data": data_of(l), "definitions": [canon_definition(d, ref_key) for d in l.definitions]}


def canon_netlist(n):
    pos = {}
    for li, l in enumerate(n.libraries):
        for di, d in enumerate(l.definitions):
            pos[id(d)] = (li, di)

    def ref_key(r):
        if r is None:
            return None
        return pos.get(id(r), ("outside", r.name))
    t = n.top_instance
    top = None
    if t is not None:
        where = None
        if t.parent is not None:
            where = (pos.get(id(t.parent), "outside"), list(t.parent.children).index(t))
        top = (t.name, data_of(t), ref_key(t.reference), where, len(t.pins))
    return {"name": n.name, "data": data_of(n), "top": top, "libraries": [canon_library(l, ref_key) for l in n.libraries]}


def first_diff(a, b, path=""):
    if type(a) is not type(b):
        return "%s: type %s vs %s" % (path, type(a).__name__, type(b).__name__)
    if isinstance(a, dict):
        for k in a:
            if k not in b:
                return "%s/%s: missing on the right" % (path, k)
            d = first_diff(a[k], b[k], "%s/%s" % (path, k))
            if d:
                return d
        for k in b:
            if k not in a:
                return "%s/%s: missing on the left" % (path, k)
        return None
    if isinstance(a, (list, tuple)):
        if len(a) != len(b):
            return "%s: length %d vs %d" % (path, len(a), len(b))
        for i, (x, y) in enumerate(zip(a, b)):
            d = first_diff(x, y, "%s[%d]" % (path, i))
            if d:
                return d
        return None
    if a != b:
        return "%s: %r vs %r" % (path, a, b)
    return None


# ---------------------------------------------------------------------------------------------- EDIF (C03)
def _props(x):
    out = []
    for p in x.get("EDIF.properties", []) or []:
        v = p.get("value")
        out.append((p.get("identifier"), p.get("original_identifier"), type(v).__name__, v))
    return out


def _pin_key(p):
    if isinstance(p, BaseOuterPin):
        ip = p.inner_pin
        return (p.instance.name, ip.port.name, list(ip.port.pins).index(ip))
    return (None, p.port.name, list(p.port.pins).index(p))


def canon_edif(n, with_identifiers=True, array_1wide=True):
    """Exactly what C03 lists: libraries, cells, ports (order, direction, width, array-ness), instances (name, cell,
    library, properties), nets (name, width, base index, per bit the ORDERED pins), top design, original names
    (name + identifier).  Port base index and library/cell order are not part of it."""
    t = n.top_instance
    out = {"name": n.name, "identifier": n.get("EDIF.identifier") if with_identifiers else None,
           "top": None if t is None else (t.reference.name, t.reference.library.name, t.name), "libs": {}}
    for l in n.libraries:
        cells = {}
        for d in l.definitions:
            ports = [(p.name, p.get("EDIF.identifier") if with_identifiers else None, p.direction.name, len(p.pins),
                      p.is_array if (array_1wide or len(p.pins) != 1) else None) for p in d.ports]
            insts = {i.name: (i.get("EDIF.identifier") if with_identifiers else None, i.reference.name,
                              i.reference.library.name, _props(i)) for i in d.children}
            nets = {}
            for c in d.cables:
                nets[c.name] = (c.get("EDIF.identifier") if with_identifiers else None, len(c.wires),
                                c.lower_index if (len(c.wires) > 1 or c.is_array) else 0,
                                [[_pin_key(p) for p in w.pins] for w in c.wires])
            cells[d.name] = {"identifier": d.get("EDIF.identifier") if with_identifiers else None, "ports": ports,
                             "insts": insts, "nets": nets}
        out["libs"][l.name] = {"identifier": l.get("EDIF.identifier") if with_identifiers else None, "cells": cells}
    return out


def edif_inventory(n):
    """What the EDIF composer is expected to put into the file for netlist n (after compose assigned identifiers),
    in the vocabulary of read_sexp.design_of: keyed by identifier."""
    def nd(x):
        ident = x["EDIF.identifier"]
        return (ident, x.name if (x.name != ident or x.get("EDIF.rename", False)) else None)
    libs = {}
    for l in n.libraries:
        cells = {}
        for d in l.definitions:
            ports = [(nd(p), len(p.pins), bool(p.is_array), {"IN": "INPUT", "OUT": "OUTPUT", "INOUT": "INOUT"}.get(p.direction.name, "UNDEFINED"))
                     for p in d.ports]
            insts = {i["EDIF.identifier"]: (nd(i), i.reference["EDIF.identifier"], i.reference.library["EDIF.identifier"],
                                            [(pp.get("identifier"), type(pp.get("value")).__name__, pp.get("value")) for pp in i.get("EDIF.properties", []) or []])
                     for i in d.children}
            nets = {}
            for c in d.cables:
                for k, w in enumerate(c.wires):
                    if len(c.wires) == 1 and not c.is_array:
                        key = nd(c)
                    else:
                        idx = c.lower_index + k
                        key = ("%s_%d_" % (c["EDIF.identifier"], idx), "%s[%d]" % (c.name, idx))
                    joined = []
                    for p in w.pins:
                        if isinstance(p, BaseOuterPin):
                            ip = p.inner_pin
                            joined.append((p.instance["EDIF.identifier"], ip.port["EDIF.identifier"],
                                           list(ip.port.pins).index(ip) if ip.port.is_array else None))
                        else:
                            joined.append((None, p.port["EDIF.identifier"], list(p.port.pins).index(p) if p.port.is_array else None))
                    nets[key[0]] = (key, joined)
            cells[d["EDIF.identifier"]] = {"name": nd(d), "ports": ports, "insts": insts, "nets": nets}
        libs[l["EDIF.identifier"]] = {"name": nd(l), "cells": cells}
    t = n.top_instance
    return {"name": nd(n), "libs": libs, "design": (nd(t), t.reference["EDIF.identifier"], t.reference.library["EDIF.identifier"])}


def sexp_inventory(design):
    """read_sexp.design_of(...) converted to the same shape as edif_inventory."""
    libs = {}
    for L in design["libs"]:
        cells = {}
        for C in L["cells"]:
            ports = [(p["name"], p["width"], p["array"], p["dir"]) for p in C["ports"]]
            insts = {i["name"][0]: (i["name"], i["cell"], i["lib"], [(p[0][0], {"string": "str", "integer": "int", "boolean": "bool"}.get(p[1], p[1]), p[2]) for p in i["props"]])
                     for i in C["insts"]}
            nets = {nn["name"][0]: (nn["name"], nn["joined"]) for nn in C["nets"]}
            cells[C["name"][0]] = {"name": C["name"], "ports": ports, "insts": insts, "nets": nets}
        libs[L["name"][0]] = {"name": L["name"], "cells": cells}
    return {"name": design["name"], "libs": libs, "design": design["design"]}
