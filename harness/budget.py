"""Logical-step budget: counts PY_START/PY_RESUME events (function entries) inside a guarded region with
sys.monitoring and raises StepBudgetExceeded from the callback when the count passes the limit.  Decides
'terminates' deterministically on logical steps; wall-clock watchdogs elsewhere only ever yield 'inconclusive'."""
import sys

TOOL = 3


class StepBudgetExceeded(BaseException):
    pass


class StepBudget:
    def __init__(self, limit):
        self.limit = int(limit)
        self.count = 0
        self.tripped = False
        self.paused = False

    def _cb(self, code, offset):
        if self.paused:
            return
        self.count += 1
        if self.count > self.limit and not self.tripped:
            self.tripped = True
            raise StepBudgetExceeded(self.limit)

    def __enter__(self):
        global ACTIVE
        ACTIVE = self
        m = sys.monitoring
        try:
            m.use_tool_id(TOOL, "verif-budget")
        except ValueError:
            m.free_tool_id(TOOL)
            m.use_tool_id(TOOL, "verif-budget")
        ev = m.events.PY_START | m.events.PY_RESUME
        m.register_callback(TOOL, m.events.PY_START, self._cb)
        m.register_callback(TOOL, m.events.PY_RESUME, self._cb)
        m.set_events(TOOL, ev)
        return self

    def __exit__(self, et, ev, tb):
        global ACTIVE
        ACTIVE = None
        m = sys.monitoring
        m.set_events(TOOL, 0)
        m.register_callback(TOOL, m.events.PY_START, None)
        m.register_callback(TOOL, m.events.PY_RESUME, None)
        m.free_tool_id(TOOL)
        return False


ACTIVE = None


class paused:
    """Exclude monitor work (invariant walks inside hooks) from the logical-step count."""

    def __enter__(self):
        self.b = ACTIVE
        if self.b is not None:
            self.b.paused = True

    def __exit__(self, *a):
        if self.b is not None:
            self.b.paused = False
        return False
