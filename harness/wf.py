"""Invariant checkers over a Universe, using only the public read API.

check_c01: ownership + pin/wire links (I1-I4).  check_c02: reference sets and outer pins (I6-I7 and the
static part of I8).  self_contained: reader / clone / transform outputs.  Each returns a list of
(code, detail) tuples; empty = holds."""


def _nm(x):
    try:
        return "%s(%r)#%x" % (type(x).__name__, x.name, id(x) & 0xFFFF)
    except Exception:
        return "%s#%x" % (type(x).__name__, id(x) & 0xFFFF)


def _is_outer(p):
    return hasattr(p, "inner_pin")


def _container_check(errs, parent, children, backptr, label):
    seen = set()
    for c in children:
        if id(c) in seen:
            errs.append(("I1-dup-" + label, "%s lists %s twice" % (_nm(parent), _nm(c))))
        seen.add(id(c))
        if getattr(c, backptr) is not parent:
            errs.append(("I1-backptr-" + label, "%s lists %s whose .%s is %s" % (
                _nm(parent), _nm(c), backptr, _nm(getattr(c, backptr)))))
    return seen


def _ghost_check(errs, child, parent, listing, label):
    if parent is None:
        return
    k = sum(1 for x in listing if x is child)
    if k != 1:
        errs.append(("I2-ghost-" + label, "%s names parent %s which lists it %d times" % (_nm(child), _nm(parent), k)))


def check_c01(u):
    errs = []
    for n in u.netlists:
        _container_check(errs, n, n.libraries, "netlist", "library")
    for l in u.libs:
        _container_check(errs, l, l.definitions, "library", "definition")
        if l.netlist is not None:
            _ghost_check(errs, l, l.netlist, l.netlist.libraries, "library")
    for d in u.defs:
        _container_check(errs, d, d.ports, "definition", "port")
        _container_check(errs, d, d.cables, "definition", "cable")
        _container_check(errs, d, d.children, "parent", "child")
        if d.library is not None:
            _ghost_check(errs, d, d.library, d.library.definitions, "definition")
    for p in u.ports:
        _container_check(errs, p, p.pins, "port", "pin")
        if p.definition is not None:
            _ghost_check(errs, p, p.definition, p.definition.ports, "port")
    for c in u.cables:
        _container_check(errs, c, c.wires, "cable", "wire")
        if c.definition is not None:
            _ghost_check(errs, c, c.definition, c.definition.cables, "cable")
    for i in u.insts:
        if i.parent is not None:
            _ghost_check(errs, i, i.parent, i.parent.children, "child")
    for x in u.ipins:
        if x.port is not None:
            _ghost_check(errs, x, x.port, x.port.pins, "pin")
    for w in u.wires:
        if w.cable is not None:
            _ghost_check(errs, w, w.cable, w.cable.wires, "wire")
        seen = set()
        for p in w.pins:
            if id(p) in seen:
                errs.append(("I4-dup-pin", "%s lists a pin twice" % _nm(w)))
            seen.add(id(p))
            if p.wire is not w:
                errs.append(("I4-wire-lists-foreign-pin", "%s lists %s pin which reports wire %s" % (
                    _nm(w), "outer" if _is_outer(p) else "inner", _nm(p.wire) if p.wire is not None else None)))
    for p in list(u.ipins) + list(u.opins):
        w = p.wire
        if w is not None:
            k = sum(1 for q in w.pins if q is p)
            if k != 1:
                errs.append(("I3-pin-not-listed", "%s pin reports %s which lists it %d times" % (
                    "outer" if _is_outer(p) else "inner", _nm(w), k)))
    return errs


def check_c02(u):
    errs = []
    for i in u.insts:
        r = i.reference
        if r is not None:
            if not any(x is i for x in r.references):
                errs.append(("I6-not-in-refset", "%s references %s but is not in its reference set" % (_nm(i), _nm(r))))
            want = [pp for po in r.ports for pp in po.pins]
        else:
            want = []
        keys = list(i.pins.keys()) if hasattr(i.pins, "keys") else None
        have = list(i.pins)
        want_ids = set(map(id, want))
        have_inner = [op.inner_pin for op in have]
        if len(have) != len(want) or set(map(id, have_inner)) != want_ids:
            errs.append(("I7-pin-set", "%s has %d outer pins (inner ids match: %s) for %d inner pins of %s" % (
                _nm(i), len(have), set(map(id, have_inner)) == want_ids, len(want), _nm(r) if r is not None else None)))
        for op in have:
            if op.instance is not i:
                errs.append(("I7-outer-instance", "outer pin of %s names instance %s" % (_nm(i), _nm(op.instance))))
        for ip in want:
            try:
                op = i.pins[ip]
            except KeyError:
                errs.append(("I7-lookup", "%s.pins[inner pin] raises KeyError" % _nm(i)))
                continue
            if op.inner_pin is not ip or op.instance is not i:
                errs.append(("I7-lookup-naming", "%s.pins[ip] returns a pin naming another inner pin/instance" % _nm(i)))
            if ip not in i.pins:
                errs.append(("I7-contains", "inner pin not `in` %s.pins although stored" % _nm(i)))
    refsets = {}
    for d in u.defs:
        for i in d.references:
            if i.reference is not d:
                errs.append(("I6-stale-refset", "%s lists %s whose reference is %s" % (
                    _nm(d), _nm(i), _nm(i.reference) if i.reference is not None else None)))
            refsets.setdefault(id(i), []).append(d)
    for k, ds in refsets.items():
        if len(ds) > 1:
            errs.append(("I6-two-refsets", "an instance is in the reference sets of %s" % [_nm(d) for d in ds]))
    # static part of I8: an outer pin that is no longer stored by its instance is on no wire
    stored = set()
    for i in u.insts:
        for op in i.pins:
            stored.add(id(op))
    for op in u.opins:
        if id(op) not in stored and op.wire is not None:
            errs.append(("I8-dropped-pin-has-wire", "an outer pin no longer stored by any instance reports %s" % _nm(op.wire)))
    for w in u.wires:
        for p in w.pins:
            if _is_outer(p) and id(p) not in stored:
                errs.append(("I8-dropped-pin-on-wire", "%s lists an outer pin that no instance stores" % _nm(w)))
    return errs


def self_contained(n, strict_refsets=False):
    """Well-formedness of one netlist as a closed structure (reader/clone/transform outputs).  With strict_refsets
    (reader outputs) a reference set may only list children of the netlist's definitions and the top instance."""
    errs = []
    defs = set()
    libs = list(n.libraries)
    for l in libs:
        if l.netlist is not n:
            errs.append(("SC-lib-backptr", _nm(l)))
        for d in l.definitions:
            defs.add(id(d))
            if d.library is not l:
                errs.append(("SC-def-backptr", _nm(d)))
    for l in libs:
        for d in l.definitions:
            child_ids = set(id(c) for c in d.children)
            for p in d.ports:
                if p.definition is not d:
                    errs.append(("SC-port-backptr", _nm(p)))
                for pin in p.pins:
                    if pin.port is not p:
                        errs.append(("SC-pin-backptr", _nm(p)))
                    w = pin.wire
                    if w is not None:
                        if sum(1 for q in w.pins if q is pin) != 1:
                            errs.append(("SC-pin-not-listed", "%s.%s" % (_nm(d), _nm(p))))
                        if w.cable is None or w.cable.definition is not d:
                            errs.append(("SC-inner-pin-foreign-wire", "%s.%s pin on wire of %s" % (
                                _nm(d), _nm(p), _nm(w.cable.definition) if w.cable is not None and w.cable.definition is not None else None)))
            for c in d.cables:
                if c.definition is not d:
                    errs.append(("SC-cable-backptr", _nm(c)))
                for w in c.wires:
                    if w.cable is not c:
                        errs.append(("SC-wire-backptr", _nm(c)))
                    for pin in w.pins:
                        if pin.wire is not w:
                            errs.append(("SC-wire-lists-foreign-pin", "%s.%s" % (_nm(d), _nm(c))))
                        if _is_outer(pin):
                            i = pin.instance
                            if i is None or id(i) not in child_ids:
                                errs.append(("SC-outer-pin-of-non-child", "%s.%s lists pin of %s" % (_nm(d), _nm(c), _nm(i) if i is not None else None)))
                            elif i.pins.get(pin.inner_pin) is not pin or pin.inner_pin is None:
                                errs.append(("SC-non-stored-outer-pin", "%s.%s" % (_nm(d), _nm(c))))
                            elif i.reference is None or pin.inner_pin.port is None or pin.inner_pin.port.definition is not i.reference:
                                errs.append(("SC-outer-pin-foreign-inner", "%s.%s pin of %s" % (_nm(d), _nm(c), _nm(i))))
                        else:
                            if pin.port is None or pin.port.definition is not d:
                                errs.append(("SC-foreign-inner-pin-on-wire", "%s.%s lists inner pin of %s" % (
                                    _nm(d), _nm(c), _nm(pin.port.definition) if pin.port is not None and pin.port.definition is not None else None)))
            for i in d.children:
                if i.parent is not d:
                    errs.append(("SC-child-backptr", _nm(i)))
                r = i.reference
                if r is None:
                    errs.append(("SC-child-without-reference", "%s.%s" % (_nm(d), _nm(i))))
                    continue
                if id(r) not in defs:
                    errs.append(("SC-reference-outside", "%s.%s -> %s" % (_nm(d), _nm(i), _nm(r))))
                if not any(x is i for x in r.references):
                    errs.append(("SC-not-in-refset", "%s.%s" % (_nm(d), _nm(i))))
                want = [pp for po in r.ports for pp in po.pins]
                have = list(i.pins)
                if len(have) != len(want) or set(id(op.inner_pin) for op in have) != set(map(id, want)):
                    errs.append(("SC-outer-pin-set", "%s.%s" % (_nm(d), _nm(i))))
                for op in have:
                    if op.instance is not i:
                        errs.append(("SC-outer-pin-instance", "%s.%s" % (_nm(d), _nm(i))))
                    w = op.wire
                    if w is not None:
                        if sum(1 for q in w.pins if q is op) != 1:
                            errs.append(("SC-outer-pin-not-listed", "%s.%s" % (_nm(d), _nm(i))))
                        if w.cable is None or w.cable.definition is not d:
                            errs.append(("SC-outer-pin-foreign-wire", "%s.%s" % (_nm(d), _nm(i))))
            for i in d.references:
                if i.reference is not d:
                    errs.append(("SC-stale-refset", _nm(d)))
                if i.parent is not None and (i.parent.library is None or i.parent.library.netlist is not n):
                    errs.append(("SC-refset-foreign-instance", "%s referenced by %s of another netlist" % (_nm(d), _nm(i))))
                if strict_refsets and i.parent is None and i is not n.top_instance:
                    errs.append(("SC-refset-orphan-instance", "%s lists %s which is neither a child of a definition nor the top instance" % (_nm(d), _nm(i))))
    t = n.top_instance
    if t is not None:
        if t.reference is None or id(t.reference) not in defs:
            errs.append(("SC-top-reference-outside", _nm(t)))
        elif not any(x is t for x in t.reference.references):
            errs.append(("SC-top-not-in-refset", _nm(t)))
    return errs
