"""Abstract flat BLIF/EBLIF designs, an independent writer, and the expected structure.  No spydrnet import.

design = {"top": name, "inputs": [(net, idx|None)], "outputs": [(net, idx|None)], "models": [model], "items": [item],
          "conns": [(netbit, netbit)], "comments": [...]}
model  = {"name", "inputs": [(port, width)], "outputs": [(port, width)], "declared": bool}
item   = {"kind": "subckt"|"gate"|"names"|"latch", "model": name|None, "pins": [(port, bit, netbit|None)],
          "cname": str|None, "attr": {}, "param": {}, "covers": [...], "order": int}
netbit = (name, idx|None)   (idx None = scalar net)"""
import random


def fmt_bit(nb):
    if nb is None:
        return "unconn"
    n, i = nb
    return n if i is None else "%s[%d]" % (n, i)


def gen_design(r, features=("cname", "attr", "param", "names", "latch", "conn", "undeclared", "bus", "consts")):
    uid = [0]

    def fresh(prefix):
        uid[0] += 1
        return "%s%d" % (prefix, uid[0])
    models = []
    for k in range(r.randint(1, 4)):
        m = {"name": fresh(r.choice(["LUT", "FD", "BUF", "CARRY"])), "inputs": [], "outputs": [], "declared": True}
        for j in range(r.randint(1, 3)):
            m["inputs"].append(("I%d" % j, r.choice([1, 1, 1, 2, 4]) if "bus" in features else 1))
        for j in range(r.randint(1, 2)):
            m["outputs"].append(("O%d" % j, r.choice([1, 1, 2]) if "bus" in features else 1))
        if "undeclared" in features and r.random() < 0.25:
            m["declared"] = False
        if models and r.random() < 0.25:
            # model names are case-sensitive: buf1 and BUF1 are two models (with different ports)
            tw = r.choice(models)["name"]
            tw = r.choice([tw.lower(), tw.swapcase(), tw.capitalize()])
            if all(tw != m2["name"] for m2 in models):
                m["name"] = tw
        models.append(m)
    weird = ["$abc$%d$n", "n%d.x", "net%d", "w%d", "$auto$blif.cc:5:p$%d.A", "sig%d", "st%d[1].sum", "$0\\leds%d[15:0].q", "g[%d].u",
             "eq%d==b", "mode=%d"]        # (an '=' in a net name: a formal=actual pair is split at the FIRST one)
    bus_bases = ["b", "b", "stage[1].sum", "$0\\leds[15:0]", "arr[2].d"]
    nets = []       # available driven net bits
    inputs = []
    for k in range(r.randint(1, 4)):
        if "bus" in features and r.random() < 0.3:
            nm = fresh("in")
            w = r.randint(2, 4)
            for b in range(w):
                inputs.append((nm, b))
                nets.append((nm, b))
        else:
            nm = fresh("in")
            inputs.append((nm, None))
            nets.append((nm, None))
    items = []
    order = 0

    def new_out():
        if "bus" in features and r.random() < 0.25:
            nm = fresh(r.choice(bus_bases))
            return [(nm, b) for b in range(r.randint(2, 3))]
        if short_names and r.random() < 0.12:
            # very short net names - among them pieces of the reserved word unconn (u, n, co, conn ...): names like any other
            return [(short_names.pop(r.randrange(len(short_names))), None)]
        return [((r.choice(weird) % uid[0]) + fresh("_"), None)]
    short_names = ["u", "n", "c", "o", "un", "co", "on", "nn", "conn", "nco", "x", "q"]
    pending_bus = []
    for k in range(r.randint(2, 9)):
        kind = r.random()
        order += 1
        if kind < 0.6 or not ({"names", "latch"} & set(features)):
            m = r.choice(models)
            it = {"kind": "gate" if r.random() < 0.15 else "subckt", "model": m["name"], "pins": [], "cname": None, "attr": {},
                  "param": {}, "covers": [], "order": order}
            for pn, w in m["inputs"]:
                for b in range(w):
                    c = r.random()
                    if c < 0.1:
                        continue                                   # formal omitted
                    nb = None if c < 0.2 else r.choice(nets)       # unconn or a driven net
                    it["pins"].append((pn, b if w > 1 else None, nb))
            outs = []
            for pn, w in m["outputs"]:
                for b in range(w):
                    if r.random() < 0.1:
                        it["pins"].append((pn, b if w > 1 else None, None))
                        continue
                    if not pending_bus:
                        pending_bus = new_out()
                    nb = pending_bus.pop(0)
                    outs.append(nb)
                    it["pins"].append((pn, b if w > 1 else None, nb))
            nets += outs
        elif kind < 0.85 and "names" in features:
            nin = r.randint(0 if "consts" in features else 1, 3)
            if r.random() < 0.12:
                nin = r.randint(10, 13)         # wide look-up tables: two-digit input positions
            ins = [r.choice(nets) for _ in range(nin)]
            if not pending_bus:
                pending_bus = new_out()
            out = pending_bus.pop(0)
            covers = []
            for _ in range(r.randint(0, 2)):
                covers.append(("".join(r.choice("01-") for _ in range(nin)) + " 1") if nin else "1 ")
            it = {"kind": "names", "model": "logic-gate_%d" % nin, "pins": [("in_%d" % j, None, nb) for j, nb in enumerate(ins)] +
                  [("out", None, out)], "cname": None, "attr": {}, "param": {}, "covers": covers, "order": order}
            nets.append(out)
        elif "latch" in features:
            if not pending_bus:
                pending_bus = new_out()
            out = pending_bus.pop(0)
            full = r.random() < 0.6
            pins = [("input", None, r.choice(nets)), ("output", None, out)]
            if full:
                # the reader represents type and init-val as (single-bit) nets named by the token
                pins += [("type", None, (r.choice(["re", "fe", "ah"]), None)), ("control", None, r.choice(nets)),
                         ("init-val", None, (r.choice(["0", "1", "2", "3"]), None))]
                if r.random() < 0.3:
                    # .latch is positional: an open operand in the middle is spelled unconn and keeps its place
                    k_ = r.choice([2, 3])
                    pins[k_] = (pins[k_][0], None, None)
            it = {"kind": "latch", "model": "generic-latch", "pins": pins, "cname": None, "attr": {}, "param": {}, "covers": [],
                  "order": order}
            nets.append(out)
        else:
            continue
        undeclared_ = it["kind"] in ("subckt", "gate") and not next(m_ for m_ in models if m_["name"] == it["model"])["declared"]
        if (it["kind"] in ("subckt", "gate") and not (undeclared_ and r.random() < 0.5)) or \
                (it["kind"] not in ("subckt", "gate") and "cname" in features and r.random() < 0.5):
            # a .subckt / .gate carries a .cname (its identity here) - except some instances of never-declared black boxes: without
            # port directions the reader cannot name them after the net they drive and leaves <model>_instance_<k> (see expected())
            it["cname"] = fresh("$inst$c")
        if "attr" in features and r.random() < 0.3:
            it["attr"] = {"src": "file.v:%d" % uid[0]}
            if r.random() < 0.3:
                it["attr"]["keep"] = "1"
        if "param" in features and r.random() < 0.3:
            it["param"] = {"INIT": "".join(r.choice("01") for _ in range(8))}
            for k_ in range(r.choice([0, 0, 1, 2, 9])):      # several .param lines on one instance (and ten of them)
                it["param"]["P%d" % k_] = r.choice(["sync", "1", "0x%X" % r.randrange(256), "true"])
        items.append(it)
    # leftover bits of a started bus stay undriven but exist only if used; drop them
    driven = [nb for it in items for (p, b, nb) in it["pins"] if nb is not None and (p.startswith("O") or p in ("out", "output"))]
    outputs = []
    for nb in r.sample(driven, min(len(driven), r.randint(1, 3))) if driven else []:
        # bus ports are dense: declaring bit k of a bus as output declares bits 0..k (the writer lists every pin of a port)
        for j in (range(nb[1] + 1) if nb[1] is not None else [None]):
            x = (nb[0], j)
            if x not in outputs:
                outputs.append(x)
    if outputs and r.random() < 0.25:
        # an inout port, the Yosys way: a scalar top-level input listed again on the .outputs line - first, so that ordinary
        # outputs follow it on the same line
        sc_in = [nb for nb in inputs if nb[1] is None]
        if sc_in:
            outputs.insert(0, r.choice(sc_in))
    conns = []
    if "conn" in features and r.random() < 0.4:
        sc = [nb for nb in nets if nb[1] is None and nb not in outputs and nb not in inputs]
        bits = [nb for nb in nets if nb[1] is not None and nb not in outputs and nb not in inputs]
        if bits and sc and "bus" in features and r.random() < 0.5:
            # a bus bit joined to a scalar net or to a bit of ANOTHER bus with a different index
            a = r.choice(bits)
            others = [nb for nb in bits if nb[0] != a[0] and nb[1] != a[1]]
            b = r.choice(others) if others and r.random() < 0.6 else r.choice(sc)
            conns.append((a, b) if r.random() < 0.5 else (b, a))
        elif len(sc) >= 2:
            a, b = r.sample(sc, 2)
            conns.append((a, b))
    return {"top": fresh("top"), "inputs": inputs, "outputs": outputs, "models": models, "items": items, "conns": conns,
            "comments": ["generated by the independent EBLIF writer"] if r.random() < 0.5 else []}


def write(design, r, style=True):
    out = []
    for c in design["comments"]:
        out.append("# " + c)
    decl = [m for m in design["models"] if m["declared"]]
    # any model order: some black boxes may be declared BEFORE the model that instantiates them
    used = set(it["model"] for it in design["items"])
    first = [m for m in decl if style and m["name"] in used and r.random() < 0.3]
    decl = [m for m in decl if m not in first]

    def blackbox(m):
        out.append(".model " + m["name"])
        bits_ = (lambda w_: list(range(w_)) if not (style and r.random() < 0.3) else list(range(w_))[::-1])
        out.append(".inputs " + " ".join(p if w == 1 else " ".join("%s[%d]" % (p, b) for b in bits_(w)) for p, w in m["inputs"]))
        out.append(".outputs " + " ".join(p if w == 1 else " ".join("%s[%d]" % (p, b) for b in range(w)) for p, w in m["outputs"]))
        out.append(".blackbox")
        out.append(".end")
        out.append("")
    for m in first:
        blackbox(m)
    out.append(".model " + design["top"])

    def wrap(words, head):
        """emit with optional line continuations"""
        line = head
        for w in words:
            if style and r.random() < 0.15:
                line += " \\\n "
            line += " " + w
        out.append(line)
    def cont(*words):
        """words of one statement, any gap possibly a line continuation (also right after the keyword)"""
        line = words[0]
        for w in words[1:]:
            line += (" \\\n " if style and r.random() < 0.08 else " ") + w
        return line
    # port declarations: the reader wants all .inputs lines before .outputs lines
    ins = [fmt_bit(nb) for nb in design["inputs"]]
    outs = [fmt_bit(nb) for nb in design["outputs"]]
    if style and r.random() < 0.3:
        # the bits of a bus port may be listed in any order (descending, interleaved with other ports)
        r.shuffle(ins)
        if not (design["outputs"] and design["outputs"][0] in design["inputs"]):
            r.shuffle(outs)
    if style and len(ins) > 2 and r.random() < 0.3:
        k = len(ins) // 2
        wrap(ins[:k], ".inputs")
        wrap(ins[k:], ".inputs")
    else:
        wrap(ins, ".inputs")
    wrap(outs, ".outputs")
    items = list(design["items"])
    for it in items:
        if style and r.random() < 0.15:
            out.append(r.choice(["# comment between statements", "#", "#", "#no blank", "# a\n# b"]))     # also empty comment lines
        if it["kind"] in ("subckt", "gate"):
            words = []
            for p, b, nb in it["pins"]:
                words.append("%s=%s" % (p if b is None else "%s[%d]" % (p, b), fmt_bit(nb)))
            wrap(words, cont(".%s" % it["kind"], it["model"]))
        elif it["kind"] == "names":
            wrap([fmt_bit(nb) for p, b, nb in it["pins"]], ".names")
            for c in it["covers"]:
                out.append(c)
        else:
            wrap([fmt_bit(nb) for p, b, nb in it["pins"]], ".latch")
        info = []
        if it["cname"]:
            info.append(cont(".cname", it["cname"]))
        for k, v in it["attr"].items():
            info.append(cont(".attr", k, v) if " " not in str(v) else ".attr %s %s" % (k, v))
        for k, v in it["param"].items():
            info.append(cont(".param", k, v) if " " not in str(v) else ".param %s %s" % (k, v))
        if style and r.random() < 0.3:
            r.shuffle(info)         # the lines that follow an instance come in any order (.param before .cname, ...)
        if style and it["kind"] in ("subckt", "gate", "latch") and len(info):
            # empty lines between an instance and the lines that describe it, and between those lines (own generator: no other draw moves)
            br = random.Random("blank:%d:%d" % (len(out), len(info)))
            if br.random() < 0.3:
                info = [x for ln in info for x in ([""] * br.choice([0, 1, 1, 2]) + [ln])]
        out.extend(info)
    for a, b in design["conns"]:
        out.append(cont(".conn", fmt_bit(a), fmt_bit(b)))
    out.append(".end")
    out.append("")
    for m in decl:
        blackbox(m)
    return "\n".join(out)


def expected(design):
    """instances keyed by item order: expected name, model, type and data."""
    insts = {}
    nth = {}
    for it in design["items"]:
        if it["kind"] in ("subckt", "gate"):
            nth[it["model"]] = nth.get(it["model"], -1) + 1       # the reader numbers the instances of a model as they appear
        if it["cname"]:
            name = it["cname"]
        elif it["kind"] in ("subckt", "gate"):
            name = "%s_instance_%d" % (it["model"], nth[it["model"]])
        elif it["kind"] == "names":
            name = fmt_bit(it["pins"][-1][2])
        else:
            name = fmt_bit(it["pins"][1][2])
        typ = {"subckt": "EBLIF.subckt", "gate": "EBLIF.gate", "names": "EBLIF.names", "latch": "EBLIF.latch"}[it["kind"]]
        insts[it["order"]] = {"name": name, "model": it["model"], "type": typ, "cname": it["cname"], "attr": dict(it["attr"]),
                              "param": dict(it["param"]),
                              "unconn": ["%s[%d]" % (p, b or 0) for p, b, nb in it["pins"] if nb is None and it["kind"] in ("subckt", "gate", "latch")],
                              "covers": list(it["covers"])}
    return insts


def port_order(design, model_name):
    """Port creation order in the reader for a model: order of first appearance (uses before the declaration, then the
    declaration's .inputs/.outputs)."""
    m = next(x for x in design["models"] if x["name"] == model_name)
    seen = []
    width = {}
    for it in design["items"]:
        if it["model"] == model_name:
            for p, b, nb in it["pins"]:
                if p not in seen:
                    seen.append(p)
                width[p] = max(width.get(p, 1), (b or 0) + 1)
    if m["declared"]:
        for p, w in m["inputs"] + m["outputs"]:
            if p not in seen:
                seen.append(p)
            width[p] = max(width.get(p, 1), w)
    return [(p, width[p]) for p in seen]


def expected_nets(design, name_of):
    """partition of pins: set of frozenset((inst name|None, port, bit)); name_of maps item order -> instance name."""
    parent = {}

    def find(x):
        parent.setdefault(x, x)
        while parent[x] != x:
            parent[x] = parent[parent[x]]
            x = parent[x]
        return x

    def union(a, b):
        a, b = find(a), find(b)
        if a != b:
            parent[a] = b
    pins = {}
    inout = set(design["inputs"]) & set(design["outputs"])
    for nb in design["inputs"] + design["outputs"]:
        key = (nb[0], nb[1] or 0)
        pins.setdefault(key, set()).add((None, nb[0], nb[1] or 0))
    for it in design["items"]:
        for p, b, nb in it["pins"]:
            if nb is not None:
                pins.setdefault((nb[0], nb[1] or 0), set()).add((name_of[it["order"]], p, b or 0))
    for a, b in design["conns"]:
        union((a[0], a[1] or 0), (b[0], b[1] or 0))
    groups = {}
    for key, ps in pins.items():
        groups.setdefault(find(key), set()).update(ps)
    return set(frozenset(g) for g in groups.values() if g)


def conn_below_top_bit(design):
    """True when a .conn operand is a bus bit that is not the highest bit of its bus (finding eblif-conn-on-bus-bit-renumbers-bus)."""
    top_of = {}
    nets = set(design["inputs"]) | set(design["outputs"])
    for it in design["items"]:
        for (_, _, nb) in it["pins"]:
            if nb is not None:
                nets.add(nb)
    for a, b in design["conns"]:
        nets.add(a); nets.add(b)
    for nb in nets:
        if nb[1] is not None:
            top_of[nb[0]] = max(top_of.get(nb[0], -1), nb[1])
    return any(x[1] is not None and x[1] < top_of[x[0]] for c in design["conns"] for x in c)
