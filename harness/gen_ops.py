"""G-OPS: the history engine.  Draws public mutator calls (valid and invalid arguments) over a Universe of
one to three netlists plus orphans.  Everything is chosen by index from insertion-ordered pools with a
seeded RNG, so a history is reproducible from (seed, profile)."""
import spydrnet as sdn
from spydrnet.ir.outerpin import OuterPin as BaseOuterPin

from .universe import Universe
from . import probes

NAMES = ["a", "b", "A", "ab", "aB", "a_1", "n0", "B", "c", "long_" + "n" * 300, "9a", "a-b"]      # (names have no length limit under either policy)
BAD_IDS = ["9a", "a-b", "", "x" * 300, "a b", "&", "_a", "caf\u00e9", "a\u0661", "sig\u00b2", "&\u00e9t\u00e9",
           "x" * 256, "&" + "y" * 256]          # (one character beyond the length limits)
IDS = ["a", "A", "b", "B", "ab", "AB", "&9", "x_1", "&_Q9", "L" + "x" * 254, "&" + "y" * 255]    # (the last two: exactly at the limits)


class BulkArg(list):
    """the members of a bulk call plus the form in which they are handed over (a bulk call accepts any iterable)"""
    form = "list"


def as_arg(xs):
    f = getattr(xs, "form", "list")
    if f == "set":
        return set(xs)
    if f == "tuple":
        return tuple(xs)
    if f == "iterator":
        return iter(list(xs))
    if f == "generator":
        return (x for x in list(xs))
    return list(xs)


class Op:
    __slots__ = ("label", "fn", "desc", "strat", "subject", "args", "kind")

    def __init__(self, label, fn, desc, strat="random", subject=None, args=(), kind=None):
        self.label, self.fn, self.desc, self.strat, self.subject, self.args, self.kind = \
            label, fn, desc, strat, subject, args, kind


def proxy(op):
    return sdn.OuterPin.from_instance_and_inner_pin(op.instance, op.inner_pin)


class Engine:
    def __init__(self, rng, profile="uniform", policy="DEFAULT", fences=()):
        self.r = rng
        self.u = Universe()
        self.profile = profile
        self.policy = policy
        self.fences = set(fences)
        self.log = []
        self.stale_proxies = []     # (instance, inner_pin) pairs remembered to build stale proxies later
        self.p_invalid = {"uniform": 0.25, "mirror": 0.15, "hostile": 0.6, "naming": 0.3, "listen": 0.25}.get(profile, 0.25)
        self.weights = self._weights(profile)
        self._ops = sorted(self.weights)
        self._w = [self.weights[k] for k in self._ops]

    # ------------------------------------------------------------------ helpers
    def pick(self, lst):
        return lst[self.r.randrange(len(lst))] if lst else None

    def invalid(self):
        return self.r.random() < self.p_invalid

    def name(self):
        return self.pick(NAMES)

    def sample(self, lst, kmax=3):
        lst = list(lst)
        k = min(len(lst), self.r.randint(0, kmax))
        return self.r.sample(lst, k)

    def members_or_random(self, members, pool):
        """valid: one of members; invalid: anything from pool."""
        members = list(members)
        if members and not self.invalid():
            return self.pick(members), "valid"
        return self.pick(pool), "random"

    def position(self, *more, kind="add"):
        """position= argument of the add_* / connect calls: absent, the front - or, as an invalid argument, something no list
        position can be (the refusal then comes from list.insert, late in the call).  Fences (open finding
        non-integer-position-fails-late): "bad_position" = never, "bad_position_connect" = not for connect_pin."""
        ok = "bad_position" not in self.fences and not (kind == "connect" and "bad_position_connect" in self.fences)
        if ok and self.invalid() and self.r.random() < 0.15:
            return self.pick(["0", 1.5, 10 ** 30, [0]])
        return self.pick([None, 0] + list(more))

    def ident_prop(self):
        """properties= of a create call carrying an identifier: legal, or (as an invalid argument under the EDIF policy) ill-formed"""
        bad = self.policy == "EDIF" and self.invalid() and self.r.random() < 0.5
        return {"EDIF.identifier": self.pick(BAD_IDS if bad else IDS)}

    def all_outer(self):
        return [op for i in self.u.insts for op in i.pins]

    def _weights(self, profile):
        base = dict(
            new_netlist=1, create_library=2, add_library=1, remove_library=1, remove_libraries_from=1, set_libraries=1,
            new_orphan=3, new_shape_sibling=3, create_definition=3, add_definition=1, remove_definition=1, remove_definitions_from=1,
            set_definitions=1, create_port=4, add_port=2, remove_port=2, remove_ports_from=1, set_ports=1,
            create_pin=2, create_pins=1, add_pin=1, remove_pin=2, remove_pins_from=1, set_pins=1,
            create_cable=4, add_cable=1, remove_cable=1, remove_cables_from=1, set_cables=1,
            create_wire=2, create_wires=1, add_wire=1, remove_wire=1, remove_wires_from=1, set_wires=1,
            create_child=5, add_child=2, remove_child=2, remove_children_from=1, set_children=1,
            set_reference=4, connect_pin=10, disconnect_pin=4, disconnect_pins_from=2, set_wire_pins=1,
            top_instance=2, set_top_instance=1, rename=4, data_edit=3, bundle_attr=4, clone_small=1, read_views=2,
        )
        if profile == "mirror":
            for k in ("create_port", "add_port", "remove_port", "remove_ports_from", "create_pin", "create_pins",
                      "remove_pin", "remove_pins_from", "set_reference", "create_child", "connect_pin", "top_instance",
                      "add_pin"):
                base[k] *= 3
            for k in ("new_netlist", "create_library", "rename", "data_edit", "bundle_attr"):
                base[k] = 1
        if profile == "naming":
            for k in ("rename", "data_edit"):
                base[k] = 25
            for k in ("create_port", "create_cable", "create_child", "create_definition", "create_library", "add_port",
                      "add_cable", "add_child", "add_definition", "add_library", "remove_port", "remove_cable",
                      "remove_child", "remove_definition", "remove_library", "new_orphan"):
                base[k] = 5
            for k in ("connect_pin", "disconnect_pin", "disconnect_pins_from"):
                base[k] = 1
            base["clone_small"] = 0
        if profile == "listen":
            base["clone_small"] = 0
        if profile == "hostile":
            base["clone_small"] = 0
            base["bundle_attr"] = 8
            base["set_reference"] = 8          # re-points: the refusal may come half-way through the re-keying
            for k in ("set_libraries", "set_definitions", "set_ports", "set_pins", "set_cables", "set_wires", "set_children", "set_wire_pins"):
                if k in base:
                    base[k] = max(base[k], 3)      # reorder assignments: a non-permutation may be noticed late
            base["new_shape_sibling"] = 5
            for k in ("remove_libraries_from", "remove_definitions_from", "remove_ports_from", "remove_pins_from", "remove_cables_from",
                      "remove_wires_from", "remove_children_from", "disconnect_pins_from"):
                if k in base:
                    base[k] = max(base[k], 3)      # the bulk variants check their whole argument before touching anything - or do they?
        return {k: v for k, v in base.items() if v > 0}

    # ------------------------------------------------------------------ driving
    def choose(self):
        for _ in range(20):
            k = self.r.choices(self._ops, self._w)[0]
            if not self.u.netlists and k != "new_netlist":
                k = "new_netlist"
            op = getattr(self, "op_" + k)()
            if op is not None:
                op.kind = k
                return op
        return None

    def absorb(self, result):
        """Register objects handed back by a call, then close under the read API."""
        if result is not None:
            if isinstance(result, (list, tuple)) or type(result).__name__ == "ListView":
                for x in result:
                    self.u.add_any(x)
            else:
                self.u.add_any(result)
        self.u.close()

    # ------------------------------------------------------------------ ops: netlist / library
    def op_new_netlist(self):
        if len(self.u.netlists) >= 3:
            return None
        nm = "n%d" % len(self.u.netlists)
        return Op("Netlist()", lambda: sdn.Netlist(nm), "Netlist(%r)" % nm, "valid")

    def op_create_library(self):
        n = self.pick(self.u.netlists)
        nm = self.name() if self.r.random() < 0.8 else None
        props = self.ident_prop() if self.r.random() < 0.2 else None
        return Op("Netlist.create_library", lambda: n.create_library(nm, props), "create_library(%r,%r)" % (nm, props), "random", n, (nm, props))

    def op_add_library(self):
        n = self.pick(self.u.netlists)
        orphans = [l for l in self.u.libs if l.netlist is None]
        l, st = self.members_or_random(orphans, self.u.libs)
        if l is None:
            return None
        pos = self.position()
        return Op("Netlist.add_library", lambda: n.add_library(l, pos), "add_library", st, n, (l,))

    def op_remove_library(self):
        n = self.pick(self.u.netlists)
        l, st = self.members_or_random(n.libraries, self.u.libs)
        if l is None:
            return None
        return Op("Netlist.remove_library", lambda: n.remove_library(l), "remove_library", st, n, (l,))

    def _bulk(self, members, pool):
        xs = self.sample(members)
        st = "valid"
        if self.invalid() and pool:
            xs = xs + [self.pick(pool)]
            st = "random"
        xs = BulkArg(xs)
        hashable = all(not isinstance(x, BaseOuterPin) for x in xs)
        xs.form = self.r.choice(["list", "list", "set", "set", "tuple", "iterator", "generator"] if hashable else ["list", "tuple", "iterator", "generator"])
        return xs, st

    def op_remove_libraries_from(self):
        n = self.pick(self.u.netlists)
        xs, st = self._bulk(n.libraries, self.u.libs)
        return Op("Netlist.remove_libraries_from", lambda: n.remove_libraries_from(as_arg(xs)), "remove_libraries_from(%d,%s)" % (len(xs), xs.form), st, n, (xs,))

    def _perm(self, members, pool, maker=None):
        base = list(members)
        L = list(base)
        self.r.shuffle(L)
        if self.invalid():
            k = self.r.choice([0, 1, 2, 3, 3, 3, 4])
            if k == 4 and len(L) >= 2:
                L = L[:-1] + [L[0]]         # the right length, one member twice and another one missing
            elif k == 0 and L:
                L = L + [L[0]]
            elif k == 1 and L:
                L = L[:-1]
            elif k == 2 and pool:
                L = L + [self.pick(pool)]
            elif k == 3 and L and pool:
                j_ = self.r.randrange(len(L))
                L = L[:j_] + [self.pick(pool)] + L[j_ + 1:]      # one member replaced by a foreign element, anywhere in the list
        ids = [id(x) for x in L]
        if len(set(ids)) == len(ids) and sorted(ids) == sorted(id(x) for x in base):
            return L, "valid"
        if len(set(ids)) != len(ids):
            return L, "dup"
        if set(ids) < set(id(x) for x in base):
            return L, "subset"
        return L, "foreign"

    def _setter(self, obj, attr, label, pool):
        L, st = self._perm(getattr(obj, attr), pool)
        form = self.r.choice(["list", "list", "tuple", "iterator", "generator", "reversed", "view-copy"])

        def view_copy():
            # the idiom  order = x.children.copy(); <edit order>; x.children = order  (copy() of the read-only view)
            c = getattr(obj, attr).copy()
            del c[:]
            c.extend(L)
            return c

        def fn():
            # the documented argument is "a reordered list"; any iterable is accepted by the setters
            v = {"list": lambda: list(L), "tuple": lambda: tuple(L), "iterator": lambda: iter(L),
                 "generator": lambda: (x for x in L), "reversed": lambda: reversed(L[::-1]), "view-copy": view_copy}[form]()
            try:
                setattr(obj, attr, v)
            finally:
                if form == "list":
                    del v[1:]          # the caller goes on using ITS list (a scratch list that is cleared and refilled)
        return Op(label, fn, "%s=(%s,%d,%s)" % (attr, st, len(L), form), st, obj, (L,))

    def op_set_libraries(self):
        n = self.pick(self.u.netlists)
        return self._setter(n, "libraries", "Netlist.libraries=", self.u.libs)

    # ------------------------------------------------------------------ orphans
    def op_new_orphan(self):
        k = self.r.randrange(7)
        nm = self.name() if self.r.random() < 0.6 else None
        if k == 0:
            return Op("Library()", lambda: sdn.Library(nm), "Library(%r)" % nm, "valid")
        if k == 1:
            return Op("Definition()", lambda: sdn.Definition(nm), "Definition(%r)" % nm, "valid")
        if k == 2:
            npins = self.r.choice([0, 1, 2])

            def mk():
                p = sdn.Port(nm, direction=self.r.choice([sdn.IN, sdn.OUT, sdn.INOUT]))
                p.create_pins(npins) if npins else None
                return p
            return Op("Port()", mk, "Port(%r,%d)" % (nm, npins), "valid")
        if k == 3:
            return Op("Cable()", lambda: sdn.Cable(nm), "Cable(%r)" % nm, "valid")
        if k == 4:
            return Op("Instance()", lambda: sdn.Instance(nm), "Instance(%r)" % nm, "valid")
        if k == 5:
            return Op("InnerPin()", lambda: sdn.InnerPin(), "InnerPin()", "valid")
        return Op("Wire()", lambda: sdn.Wire(), "Wire()", "valid")

    def op_new_shape_sibling(self):
        """A fresh definition with the port shape of an existing one - identical, or differing only in its LAST port:
        makes shape-compatible re-points and late shape mismatches frequent."""
        cands = [d for d in self.u.defs if len(d.ports) >= 1]
        if not cands or len(self.u.defs) > 14:
            return None
        src = self.pick(cands)
        named2 = [d for d in cands if sum(1 for p in d.ports if p.name) >= 2 and d.references]
        if named2 and self.r.random() < 0.4:
            src = self.pick(named2)         # (an instanced cell with two or more named ports: a re-point target that matters)
        widths = [len(p.pins) for p in src.ports]
        kind = self.r.choice(["same", "same", "same, port names rotated", "same, port names rotated", "last port wider", "last port wider", "widths permuted", "widths permuted"])
        same = kind == "same"
        names = [None] * len(widths)
        if kind == "same, port names rotated":
            # the ports of the sibling carry the SAME names as the source's, at other positions (re-pointing goes by position)
            names = [p.name for p in src.ports]
            names = names[1:] + names[:1]
        if kind == "last port wider":
            widths[-1] += 1
        elif kind == "widths permuted":
            # same number of ports, same total number of pins, another distribution over the ports
            if len(widths) >= 3 and len(set(widths[1:])) > 1 and self.r.random() < 0.5:
                widths = widths[:1] + widths[2:] + widths[1:2]      # the first port keeps its width: the mismatch comes late
            elif len(widths) >= 2 and len(set(widths)) > 1:
                widths = widths[1:] + widths[:1]
            elif len(widths) >= 2 and widths[0] >= 1:
                widths[0] -= 1
                widths[-1] += 1
            else:
                widths[-1] += 1

        def mk():
            d = sdn.Definition()
            for w, nm_ in zip(widths, names):
                d.create_port(nm_, pins=w or None)
            return d
        return Op("Definition()", mk, "Definition(shape sibling,%s)" % kind, "valid")

    # ------------------------------------------------------------------ definitions in libraries
    def op_create_definition(self):
        l = self.pick(self.u.libs)
        if l is None:
            return None
        nm = self.name() if self.r.random() < 0.8 else None
        props = self.ident_prop() if self.r.random() < 0.2 else None
        return Op("Library.create_definition", lambda: l.create_definition(nm, props), "create_definition(%r,%r)" % (nm, props), "random", l, (nm, props))

    def op_add_definition(self):
        l = self.pick(self.u.libs)
        if l is None:
            return None
        d, st = self.members_or_random([d for d in self.u.defs if d.library is None], self.u.defs)
        if d is None:
            return None
        pos = self.position()
        if d.library is None and len(l.definitions) >= 2 and self.invalid() and self.r.random() < 0.5:
            # an orphan that carries the name of a member, offered at a position in the MIDDLE of the list: refused by the naming
            # rules - and the list is what it was, member for member
            named = [x.name for x in l.definitions if x.name]
            if named:
                try:
                    d.name = self.pick(named)
                    pos, st = self.r.choice([0, 1, -1, len(l.definitions) - 1]), "name-collision"
                except ValueError:
                    pass
        return Op("Library.add_definition", lambda: l.add_definition(d, pos), "add_definition(%s,pos=%r)" % (st, pos), st, l, (d,))

    def op_remove_definition(self):
        l = self.pick(self.u.libs)
        if l is None:
            return None
        d, st = self.members_or_random(l.definitions, self.u.defs)
        if d is None:
            return None
        return Op("Library.remove_definition", lambda: l.remove_definition(d), "remove_definition", st, l, (d,))

    def op_remove_definitions_from(self):
        l = self.pick(self.u.libs)
        if l is None:
            return None
        xs, st = self._bulk(l.definitions, self.u.defs)
        return Op("Library.remove_definitions_from", lambda: l.remove_definitions_from(as_arg(xs)), "remove_definitions_from(%d,%s)" % (len(xs), xs.form), st, l, (xs,))

    def op_set_definitions(self):
        l = self.pick(self.u.libs)
        if l is None:
            return None
        return self._setter(l, "definitions", "Library.definitions=", self.u.defs)

    # ------------------------------------------------------------------ ports / pins
    def _def(self, instanced=False):
        if instanced or (self.profile == "mirror" and self.r.random() < 0.7):
            c = [d for d in self.u.defs if len(d.references) > 0]
            if c:
                return self.pick(c)
        return self.pick(self.u.defs)

    def op_create_port(self):
        d = self._def()
        if d is None:
            return None
        nm = self.name() if self.r.random() < 0.8 else None
        pins = self.r.choice([None, 1, 1, 2, 3])
        kw = {}
        if self.r.random() < 0.3:
            kw["direction"] = self.r.choice([sdn.IN, sdn.OUT, sdn.INOUT, "in", 3])
        if self.r.random() < 0.2:
            kw["lower_index"] = self.r.choice([0, 2])
        if self.r.random() < 0.2:
            kw["is_downto"] = self.r.choice([True, False])
        if self.r.random() < 0.2:
            kw["is_scalar"] = self.r.choice([True, True, False])      # (also with pins >= 2: stored as given, read back as False)
        if self.r.random() < 0.2:
            kw["properties"] = self.r.choice([{"k": 1}, self.ident_prop(), self.ident_prop()])
        return Op("Definition.create_port", lambda: d.create_port(nm, pins=pins, **kw), "create_port(%r,pins=%r,%s)" % (nm, pins, sorted(kw)), "random", d, (nm, kw.get("properties")))

    def op_add_port(self):
        d = self._def()
        if d is None:
            return None
        p, st = self.members_or_random([p for p in self.u.ports if p.definition is None], self.u.ports)
        if p is None:
            return None
        if p.definition is None and self.invalid() and self.r.random() < 0.5:
            # a pre-built port (with pins) that carries the name of a port the target already has, offered to an INSTANCED
            # definition: the naming rules refuse it - after or before the instances were given outer pins?
            d2 = self._def(instanced=True)
            named = [q for q in (d2.ports if d2 is not None else []) if q.name]
            if named:
                try:
                    p.name = self.pick(named).name
                    d, st = d2, "name-collision"
                    if not len(p.pins):
                        p.create_pins(self.r.choice([1, 2]))
                except Exception:  # noqa: BLE001
                    pass
        pos = self.position()
        return Op("Definition.add_port", lambda: d.add_port(p, pos), "add_port(pins=%d)" % len(p.pins), st, d, (p,))

    def op_remove_port(self):
        d = self._def()
        if d is None:
            return None
        p, st = self.members_or_random(d.ports, self.u.ports)
        if p is None:
            return None
        return Op("Definition.remove_port", lambda: d.remove_port(p), "remove_port", st, d, (p,))

    def op_remove_ports_from(self):
        d = self._def()
        if d is None:
            return None
        xs, st = self._bulk(d.ports, self.u.ports)
        return Op("Definition.remove_ports_from", lambda: d.remove_ports_from(as_arg(xs)), "remove_ports_from(%d,%s)" % (len(xs), xs.form), st, d, (xs,))

    def op_set_ports(self):
        d = self._def()
        if d is None:
            return None
        return self._setter(d, "ports", "Definition.ports=", self.u.ports)

    def _port(self):
        if self.profile == "mirror" and self.r.random() < 0.7:
            c = [p for p in self.u.ports if p.definition is not None and len(p.definition.references) > 0]
            if c:
                return self.pick(c)
        return self.pick(self.u.ports)

    def op_create_pin(self):
        p = self._port()
        if p is None:
            return None
        return Op("Port.create_pin", lambda: p.create_pin(), "create_pin", "valid", p)

    def op_create_pins(self):
        p = self._port()
        if p is None:
            return None
        k = self.r.choice([0, 1, 1, 2, 2, 3, 9])       # (a count of zero is a legal request for nothing; nine makes two-digit indices)
        return Op("Port.create_pins", lambda: p.create_pins(k), "create_pins(%d)" % k, "valid", p, (k,))

    def op_add_pin(self):
        p = self._port()
        if p is None:
            return None
        if "add_pin_on_instanced" in self.fences and p.definition is not None and len(p.definition.references) > 0:
            return None
        orphans = [x for x in self.u.ipins if x.port is None]
        if orphans and not self.invalid():
            x, st = self.pick(orphans), "valid"
        elif self.r.random() < 0.3:
            x, st = sdn.InnerPin(), "valid"
        elif self.r.random() < 0.2 and self.all_outer():
            x, st = self.pick(self.all_outer()), "wrong-type"
        else:
            x, st = self.pick(self.u.ipins), "random"
        if x is None:
            return None
        pos = self.position()
        return Op("Port.add_pin", lambda: p.add_pin(x, pos), "add_pin(%s)" % st, st, p, (x,))

    def op_remove_pin(self):
        p = self._port()
        if p is None:
            return None
        x, st = self.members_or_random(p.pins, self.u.ipins)
        if x is None:
            return None
        return Op("Port.remove_pin", lambda: p.remove_pin(x), "remove_pin", st, p, (x,))

    def op_remove_pins_from(self):
        p = self._port()
        if p is None:
            return None
        xs, st = self._bulk(p.pins, self.u.ipins + self.all_outer()[:2])
        return Op("Port.remove_pins_from", lambda: p.remove_pins_from(as_arg(xs)), "remove_pins_from(%d,%s)" % (len(xs), xs.form), st, p, (xs,))

    def op_set_pins(self):
        p = self._port()
        if p is None:
            return None
        return self._setter(p, "pins", "Port.pins=", self.u.ipins)

    # ------------------------------------------------------------------ cables / wires
    def op_create_cable(self):
        d = self.pick(self.u.defs)
        if d is None:
            return None
        nm = self.name() if self.r.random() < 0.8 else None
        wires = self.r.choice([None, 1, 1, 2, 3])
        kw = {}
        if self.r.random() < 0.2:
            kw["lower_index"] = self.r.choice([0, 3])
        if self.r.random() < 0.1:
            kw["is_scalar"] = self.r.choice([True, False])
        if self.r.random() < 0.2:
            kw["properties"] = self.ident_prop()      # an element that arrives with BOTH naming keys
        return Op("Definition.create_cable", lambda: d.create_cable(nm, wires=wires, **kw), "create_cable(%r,wires=%r,%s)" % (nm, wires, sorted(kw)), "random", d, (nm, kw.get("properties")))

    def op_add_cable(self):
        d = self.pick(self.u.defs)
        if d is None:
            return None
        c, st = self.members_or_random([c for c in self.u.cables if c.definition is None], self.u.cables)
        if c is None:
            return None
        pos = self.position()
        return Op("Definition.add_cable", lambda: d.add_cable(c, pos), "add_cable", st, d, (c,))

    def op_remove_cable(self):
        d = self.pick(self.u.defs)
        if d is None:
            return None
        c, st = self.members_or_random(d.cables, self.u.cables)
        if c is None:
            return None
        return Op("Definition.remove_cable", lambda: d.remove_cable(c), "remove_cable", st, d, (c,))

    def op_remove_cables_from(self):
        d = self.pick(self.u.defs)
        if d is None:
            return None
        xs, st = self._bulk(d.cables, self.u.cables)
        return Op("Definition.remove_cables_from", lambda: d.remove_cables_from(as_arg(xs)), "remove_cables_from(%d,%s)" % (len(xs), xs.form), st, d, (xs,))

    def op_set_cables(self):
        d = self.pick(self.u.defs)
        if d is None:
            return None
        return self._setter(d, "cables", "Definition.cables=", self.u.cables)

    def op_create_wire(self):
        c = self.pick(self.u.cables)
        if c is None:
            return None
        return Op("Cable.create_wire", lambda: c.create_wire(), "create_wire", "valid", c)

    def op_create_wires(self):
        c = self.pick(self.u.cables)
        if c is None:
            return None
        k = self.r.choice([0, 1, 1, 2, 2, 3, 9])
        return Op("Cable.create_wires", lambda: c.create_wires(k), "create_wires(%d)" % k, "valid", c, (k,))

    def op_add_wire(self):
        c = self.pick(self.u.cables)
        if c is None:
            return None
        w, st = self.members_or_random([w for w in self.u.wires if w.cable is None], self.u.wires)
        if w is None:
            return None
        pos = self.position()
        return Op("Cable.add_wire", lambda: c.add_wire(w, pos), "add_wire", st, c, (w,))

    def op_remove_wire(self):
        c = self.pick(self.u.cables)
        if c is None:
            return None
        w, st = self.members_or_random(c.wires, self.u.wires)
        if w is None:
            return None
        return Op("Cable.remove_wire", lambda: c.remove_wire(w), "remove_wire", st, c, (w,))

    def op_remove_wires_from(self):
        c = self.pick(self.u.cables)
        if c is None:
            return None
        xs, st = self._bulk(c.wires, self.u.wires)
        return Op("Cable.remove_wires_from", lambda: c.remove_wires_from(as_arg(xs)), "remove_wires_from(%d,%s)" % (len(xs), xs.form), st, c, (xs,))

    def op_set_wires(self):
        c = self.pick(self.u.cables)
        if c is None:
            return None
        return self._setter(c, "wires", "Cable.wires=", self.u.wires + [sdn.Wire()])

    # ------------------------------------------------------------------ instances
    def _ref_choice(self):
        if self.profile == "mirror" and self.u.defs:
            return self.pick(self.u.defs[:6])
        return self.pick(self.u.defs + [None]) if self.u.defs else None

    def op_create_child(self):
        d = self.pick(self.u.defs)
        if d is None:
            return None
        grown = [x for x in self.u.defs if len(x.children) >= 2]
        if grown and self.r.random() < 0.4:
            d = self.pick(grown)        # some definitions grow long child lists (order effects need length)
        nm = self.name() if self.r.random() < 0.8 else None
        ref = self._ref_choice()
        if "create_child_dup_name" in self.fences and nm is not None and any(c.name == nm for c in d.children):
            return None
        kw = {}
        if self.r.random() < 0.1:
            kw["properties"] = {"k": [1, {"z": 2}]}
        elif self.r.random() < 0.2:
            kw["properties"] = self.ident_prop()
        return Op("Definition.create_child", lambda: d.create_child(nm, reference=ref, **kw), "create_child(%r,ref=%s%s)" % (nm, ref is not None, ",properties" if "properties" in kw else ""), "random", d,
                  (nm, kw["properties"], ref) if "properties" in kw else (nm, ref))

    def op_add_child(self):
        d = self.pick(self.u.defs)
        if d is None:
            return None
        i, st = self.members_or_random([i for i in self.u.insts if i.parent is None], self.u.insts)
        if i is None:
            return None
        pos = self.position()
        return Op("Definition.add_child", lambda: d.add_child(i, pos), "add_child", st, d, (i,))

    def op_remove_child(self):
        d = self.pick(self.u.defs)
        if d is None:
            return None
        i, st = self.members_or_random(d.children, self.u.insts)
        if i is None:
            return None
        return Op("Definition.remove_child", lambda: d.remove_child(i), "remove_child", st, d, (i,))

    def op_remove_children_from(self):
        d = self.pick(self.u.defs)
        if d is None:
            return None
        xs, st = self._bulk(d.children, self.u.insts)
        return Op("Definition.remove_children_from", lambda: d.remove_children_from(as_arg(xs)), "remove_children_from(%d,%s)" % (len(xs), xs.form), st, d, (xs,))

    def op_read_views(self):
        """Not an edit: the read-only views are READ the way user code does - set operators on a definition's reference set, list
        operations on the list views.  Nothing may change."""
        d = self.pick([x for x in self.u.defs if len(x.references)] or self.u.defs)
        if d is None:
            return None
        other = set(self.r.sample(self.u.insts, min(len(self.u.insts), self.r.randint(0, 4))))

        def fn():
            v = d.references
            out = [v & other, v | other, v - other, v ^ other, other & v, other | v, other - v, len(v), sorted(map(id, v)), v == other, v != other]
            for view in (d.children, d.ports, d.cables):
                out += [list(view), view[:1], list(reversed(view)), len(view), view + [], view * 1, view.copy() if hasattr(view, "copy") else None]
            return None
        return Op("Definition.references(read)", fn, "set operators on references, list operations on views", "valid", d, ())

    def op_set_children(self):
        d = self.pick(self.u.defs)
        if d is None:
            return None
        busy = [x for x in self.u.defs if len(x.children) >= 4]
        if busy and self.r.random() < 0.6:
            d = self.pick(busy)         # a reorder that goes wrong half-way shows only in lists of some length
        return self._setter(d, "children", "Definition.children=", self.u.insts)

    @staticmethod
    def shape(d):
        return tuple(len(p.pins) for p in d.ports)

    def op_set_reference(self):
        i = self.pick(self.u.insts)
        if i is None:
            return None
        for op in i.pins:
            if self.r.random() < 0.3:
                self.stale_proxies.append((i, op.inner_pin))
        k = self.r.random()
        cur = i.reference
        if k < 0.2:
            ref, st = None, "none"
        elif k < 0.3 and cur is not None:
            ref, st = cur, "same"
        else:
            compat = [d for d in self.u.defs if cur is None or self.shape(d) == self.shape(cur)]
            if compat and not self.invalid():
                ref, st = self.pick(compat), "compatible"
            else:
                # same port count, widths differ in a LATER port: the refusal must come before any pin is re-keyed
                late = [d for d in self.u.defs if cur is not None and len(self.shape(d)) == len(self.shape(cur)) >= 2 and
                        self.shape(d) != self.shape(cur) and self.shape(d)[0] == self.shape(cur)[0]]
                totals = [d for d in self.u.defs if cur is not None and self.shape(d) != self.shape(cur) and
                          len(self.shape(d)) == len(self.shape(cur)) and sum(self.shape(d)) == sum(self.shape(cur))]
                if totals and self.r.random() < (0.35 if late else 0.5):
                    ref, st = self.pick(totals), "same-totals-mismatch"     # equal port count and pin total, other widths
                elif late and self.r.random() < 0.6:
                    ref, st = self.pick(late), "late-width-mismatch"
                else:
                    ref = self.pick(self.u.defs)
                    st = "random"
        if k >= 0.2 and ref is None:
            return None
        if self.r.random() < 0.1 and ref is None:
            def fn():
                del i.reference
            return Op("Instance.del_reference", fn, "del reference", st, i, (None,))

        def fn():
            i.reference = ref
        return Op("Instance.reference=", fn, "reference=(%s)" % st, st, i, (ref,))

    # ------------------------------------------------------------------ connections
    def _pin_for_connect(self, w):
        r = self.r
        outer = self.all_outer()
        free_in = [p for p in self.u.ipins if p.wire is None]
        free_out = [p for p in outer if p.wire is None]
        if not self.invalid():
            c = free_in + free_out
            if not c:
                return None, None
            p = self.pick(c)
            if isinstance(p, BaseOuterPin) and r.random() < 0.35:
                return proxy(p), "valid-proxy"
            return p, "valid"
        k = r.randrange(6)
        if k == 0 and list(w.pins):
            p = self.pick(list(w.pins))
            if isinstance(p, BaseOuterPin) and r.random() < 0.5:
                return proxy(p), "already-here-proxy"
            return p, "already-here"
        if k == 1:
            c = [p for p in self.u.ipins + outer if p.wire is not None and p.wire is not w]
            if c:
                p = self.pick(c)
                if isinstance(p, BaseOuterPin) and r.random() < 0.5:
                    return proxy(p), "elsewhere-proxy"
                return p, "elsewhere"
        if k == 2 and self.stale_proxies:
            i, ip = self.pick(self.stale_proxies)
            return sdn.OuterPin.from_instance_and_inner_pin(i, ip), "stale-proxy"
        if k == 3 and self.u.insts and self.u.ipins:
            return sdn.OuterPin.from_instance_and_inner_pin(self.pick(self.u.insts), self.pick(self.u.ipins)), "mismatched-proxy"
        if k == 4:
            det = [p for p in self.u.opins if p.instance is None]
            if det:
                return self.pick(det), "detached-outer"
            return sdn.OuterPin(), "empty-outer"
        c = self.u.ipins + outer
        return (self.pick(c), "random") if c else (None, None)

    def op_connect_pin(self):
        w = self.pick(self.u.wires)
        if w is None:
            return None
        p, st = self._pin_for_connect(w)
        if p is None:
            return None
        pos = self.position(None, kind="connect")
        if pos is None:
            return Op("Wire.connect_pin", lambda: w.connect_pin(p), "connect_pin(%s)" % st, st, w, (p,))
        return Op("Wire.connect_pin", lambda: w.connect_pin(p, position=pos), "connect_pin(%s,pos=0)" % st, st, w, (p,))

    def op_disconnect_pin(self):
        w = self.pick([w for w in self.u.wires if len(w.pins)] or self.u.wires)
        if w is None:
            return None
        pins = list(w.pins)
        if pins and not self.invalid():
            p, st = self.pick(pins), "valid"
            if isinstance(p, BaseOuterPin) and self.r.random() < 0.4:
                p, st = proxy(p), "valid-proxy"
        else:
            k = self.r.randrange(3)
            if k == 0 and self.stale_proxies:
                i, ip = self.pick(self.stale_proxies)
                p, st = sdn.OuterPin.from_instance_and_inner_pin(i, ip), "stale-proxy"
            elif k == 1:
                c = [p for p in self.u.ipins + self.all_outer() if p.wire is not w]
                p, st = (self.pick(c), "not-here") if c else (None, None)
                if p is not None and isinstance(p, BaseOuterPin) and self.r.random() < 0.5:
                    p, st = proxy(p), "not-here-proxy"
            else:
                p, st = sdn.OuterPin(), "empty-outer"
        if p is None:
            return None
        return Op("Wire.disconnect_pin", lambda: w.disconnect_pin(p), "disconnect_pin(%s)" % st, st, w, (p,))

    def op_disconnect_pins_from(self):
        w = self.pick([w for w in self.u.wires if len(w.pins)] or self.u.wires)
        if w is None:
            return None
        ps = self.sample(list(w.pins))
        ps = [proxy(p) if isinstance(p, BaseOuterPin) and self.r.random() < 0.4 else p for p in ps]
        st = "valid"
        if self.invalid():
            k = self.r.randrange(6)         # (3-5: a real pin that sits on ANOTHER wire)
            bad = None
            if k == 0 and self.stale_proxies:
                i, ip = self.pick(self.stale_proxies)
                bad, st = sdn.OuterPin.from_instance_and_inner_pin(i, ip), "mixed-stale-proxy"
            elif k == 1 and self.u.insts and self.u.ipins:
                bad, st = sdn.OuterPin.from_instance_and_inner_pin(self.pick(self.u.insts), self.pick(self.u.ipins)), "mixed-mismatched-proxy"
            elif k == 2:
                bad, st = sdn.OuterPin(), "mixed-empty-outer"
            if bad is None:
                c = [p for p in self.u.ipins + self.all_outer() if p.wire is not w]
                elsewhere = [p for p in c if p.wire is not None]      # connected, but to another wire
                if elsewhere and self.r.random() < 0.7:
                    c = elsewhere
                if c:
                    bad, st = self.pick(c), "mixed-invalid"
                    if isinstance(bad, BaseOuterPin) and self.r.random() < 0.3:
                        bad = proxy(bad)
            if bad is not None:
                ps.insert(self.r.randint(0, len(ps)), bad)       # anywhere among the valid ones
        arg = set(ps) if self.r.random() < 0.3 else ps
        return Op("Wire.disconnect_pins_from", lambda: w.disconnect_pins_from(arg), "disconnect_pins_from(%d,%s)" % (len(ps), st), st, w, (ps,))

    def op_set_wire_pins(self):
        w = self.pick([w for w in self.u.wires if len(w.pins)] or self.u.wires)
        if w is None:
            return None
        if self.r.random() < 0.3 and any(isinstance(p, sdn.OuterPin) for p in w.pins):
            # a reorder whose members are named BY VALUE: handles built from (instance, inner pin) stand for the instance pins
            L = list(w.pins)
            self.r.shuffle(L)
            L = [sdn.OuterPin.from_instance_and_inner_pin(p.instance, p.inner_pin)
                 if isinstance(p, sdn.OuterPin) and p.instance is not None and self.r.random() < 0.6 else p for p in L]

            def fn():
                w.pins = list(L)
            return Op("Wire.pins=", fn, "pins=(valid-by-value-handles,%d)" % len(L), "valid", w, (L,))
        return self._setter(w, "pins", "Wire.pins=", self.u.ipins)

    # ------------------------------------------------------------------ top instance
    def op_top_instance(self):
        n = self.pick(self.u.netlists)
        k = self.r.random()
        if k < 0.45 and self.u.defs:
            x, st = self.pick(self.u.defs), "definition"
        elif k < 0.8 and self.u.insts:
            x, st = self.pick(self.u.insts), "instance"
        elif k < 0.92:
            x, st = None, "none"
        else:
            x, st = self.pick([5, "top"] + self.u.libs[:1]), "wrong-type"

        def fn():
            n.top_instance = x
        return Op("Netlist.top_instance=", fn, "top_instance=(%s)" % st, st, n, (x,))

    def op_set_top_instance(self):
        n = self.pick(self.u.netlists)
        k = self.r.random()
        if k < 0.6 and self.u.defs:
            x, st = self.pick(self.u.defs), "definition"
            if "set_top_instance_definition" in self.fences:
                return None
        elif k < 0.9 and self.u.insts:
            x, st = self.pick(self.u.insts), "instance"
        else:
            x, st = None, "none"
        nm = self.name()
        if st == "definition" and x.library is not None and self.r.random() < 0.4:
            # the name the definition is to get is already the name of a sibling definition: the rename inside the call is refused
            sib = [d.name for d in x.library.definitions if d is not x and d.name]
            if sib:
                nm = self.pick(sib)
        return Op("Netlist.set_top_instance", lambda: n.set_top_instance(x, nm), "set_top_instance(%s,%r)" % (st, nm), st, n, (x, nm))

    # ------------------------------------------------------------------ names and data
    def _named(self):
        pool = self.u.libs + self.u.defs + self.u.ports + self.u.cables + self.u.insts
        if self.r.random() < 0.1:
            pool = pool + self.u.netlists
        return self.pick(pool)

    def op_rename(self):
        x = self._named()
        if x is None:
            return None
        k = self.r.randrange(9)
        edif = self.policy == "EDIF"
        nm = self.name()
        if k in (0, 1, 2):
            if "name_none_on_unnamed" in self.fences or self.r.random() < 0.8:
                v = nm
            else:
                v = None
            if v is None and "name_none_on_unnamed" in self.fences and ".NAME" not in x:
                return None

            def fn():
                x.name = v
            return Op("FirstClassElement.name=", fn, "name=%r" % v, "random", x, (".NAME", v))
        if k == 3:
            def fn():
                x[".NAME"] = nm
            return Op("FirstClassElement.__setitem__", fn, "['.NAME']=%r" % nm, "random", x, (".NAME", nm))
        if k == 4:
            key = self.r.choice([".NAME", "EDIF.identifier"])
            if key not in x and not self.invalid():
                return None

            def fn():
                del x[key]
            return Op("FirstClassElement.__delitem__", fn, "del [%r]" % key, "random", x, (key,))
        if k == 5:
            key = self.r.choice([".NAME", "EDIF.identifier"])
            if key not in x and not self.invalid():
                return None
            return Op("FirstClassElement.pop", lambda: x.pop(key), "pop(%r)" % key, "random", x, (key,))
        if k in (6, 7):
            v = self.pick(BAD_IDS) if (edif and self.invalid()) else self.pick(IDS)

            def fn():
                x["EDIF.identifier"] = v
            return Op("FirstClassElement.__setitem__", fn, "['EDIF.identifier']=%r" % v[:12], "random", x, ("EDIF.identifier", v))

        def fn():
            del x.name
        return Op("FirstClassElement.del_name", fn, "del name", "random", x, (".NAME",))

    def op_data_edit(self):
        x = self._named()
        if x is None:
            return None
        k = self.r.randrange(4)
        key = self.r.choice(["k", "u.v", "EDIF.properties"])
        if k <= 1:
            v = self.r.choice([1, "s", [1, 2], {"a": [1]}, True, 1.0, 0, False, None, 2, 2.0])     # (== but not the same: 1 / True / 1.0, 0 / False)

            def fn():
                x[key] = v
            return Op("FirstClassElement.__setitem__", fn, "[%r]=%r" % (key, v), "valid", x, (key, v))
        if k == 2:
            def fn():
                del x[key]
            return Op("FirstClassElement.__delitem__", fn, "del [%r]" % key, "valid" if key in x else "missing-key", x, (key,))
        return Op("FirstClassElement.pop", lambda: x.pop(key), "pop(%r)" % key, "valid" if key in x else "missing-key", x, (key,))

    def op_bundle_attr(self):
        b = self.pick(self.u.ports + self.u.cables)
        if b is None:
            return None
        k = self.r.randrange(5)
        if k == 0:
            v = self.r.choice([True, False])

            def fn():
                b.is_downto = v
            return Op("Bundle.is_downto=", fn, "is_downto=%r" % v, "valid", b, (v,))
        if k == 1:
            v = self.r.choice([True, False])

            def fn():
                b.is_scalar = v
            return Op("Bundle.is_scalar=", fn, "is_scalar=%r" % v, "random", b, (v,))
        if k == 2:
            v = self.r.choice([True, False])

            def fn():
                b.is_array = v
            return Op("Bundle.is_array=", fn, "is_array=%r" % v, "random", b, (v,))
        if k == 3:
            v = self.r.choice([0, 1, 5])

            def fn():
                b.lower_index = v
            return Op("Bundle.lower_index=", fn, "lower_index=%r" % v, "valid", b, (v,))
        p = self.pick(self.u.ports)
        if p is None:
            return None
        v = self.r.choice([sdn.IN, sdn.OUT, sdn.INOUT, sdn.UNDEFINED, 2, "out", 1.5])

        def fn():
            p.direction = v
        return Op("Port.direction=", fn, "direction=%r" % (v,), "wrong-type" if v == 1.5 else "valid", p, (v,))

    def op_clone_small(self):
        k = self.r.randrange(6)
        if k == 0:
            i = self.pick([i for i in self.u.insts if i.reference is not None])
            if i is None:
                return None
            return Op("Instance.clone", lambda: i.clone(), "Instance.clone", "valid", i)
        if k == 1:
            d = self.pick([d for d in self.u.defs if all(c.reference is not None for c in d.children)])
            if d is None:
                return None
            return Op("Definition.clone", lambda: d.clone(), "Definition.clone", "valid", d)
        pool = {2: self.u.ports, 3: self.u.cables, 4: self.u.wires, 5: self.u.ipins}[k]
        x = self.pick(pool)
        if x is None:
            return None
        return Op("%s.clone" % type(x).__name__, lambda: x.clone(), "%s.clone" % type(x).__name__, "valid", x)


def run_history(eng, nsteps, monitors):
    """Drive `nsteps` operations; monitors get pre(eng, op) and post(eng, op, outcome, exc, result)."""
    for t in range(nsteps):
        op = eng.choose()
        if op is None:
            continue
        for m in monitors:
            m.pre(eng, op)
        exc = None
        result = None
        try:
            result = op.fn()
            outcome = "ok"
        except Exception as e:  # noqa: BLE001 - every exception is an observation
            exc = e
            outcome = probes.classify_exception(e)
        eng.absorb(result)
        eng.log.append((t, op.label, op.desc, outcome if exc is None else "%s:%s" % (outcome, type(exc).__name__)))
        stop = False
        for m in monitors:
            if m.post(eng, op, outcome, exc, result):
                stop = True
        if stop:
            return t
    return None


def probe_bad_position(which="connect"):
    """Open finding non-integer-position-fails-late: a position= argument that list.insert cannot take makes the call fail
    AFTER it was announced / registered / the pin was pointed at the wire.  True while that reproduces."""
    n = sdn.Netlist("n")
    lib = n.create_library("l")
    leaf = lib.create_definition("leaf")
    leaf.create_port("p", pins=1)
    d = lib.create_definition("d")
    if which == "connect":
        i = d.create_child("i", reference=leaf)
        w = d.create_cable("c", wires=1).wires[0]
        op = next(iter(i.pins))
        try:
            w.connect_pin(op, position="0")
        except TypeError:
            return op.wire is w and op not in list(w.pins)
        return False
    x = sdn.Instance("taken")
    x.reference = leaf
    try:
        d.add_child(x, position="0")
    except TypeError:
        return x not in list(d.children) and next(d.get_instances("taken"), None) is not None
    return False
