"""Token-level fault injection for EDIF / Verilog / EBLIF texts (independent tokenizers, no spydrnet import).
The fault space of one text is finite: truncation at each token boundary, deletion / duplication / replacement of
each token, and - EDIF - dangling references (one reference retargeted to an undeclared identifier)."""
import re

from . import read_sexp

EDIF_REPL = ["(", ")", "cell", "net", "port", "portBundle", "viewMap", "userData", "999", "\"str\"", "zz_undeclared", "joined", "member"]
V_REPL = ["(", ")", ";", ",", "module", "endmodule", "wire", "input", "assign", "zz_undeclared", "[3:0]", "1'b1", ".", "{", "}", "#", "(*", "*)", "`celldefine"]
E_REPL = [".model", ".end", ".subckt", ".names", ".latch", ".inputs", ".outputs", ".conn", ".cname", "zz=yy", "zz_undeclared", "=", "\\", ".blackbox"]


def tok_edif(text):
    return read_sexp.tokenize(text)


def join_edif(toks):
    return " ".join(toks)


def tok_verilog(text):
    return re.findall(r"//[^\n]*\n|/\*.*?\*/|\(\*|\*\)|\\\S+\s|`\w+|[A-Za-z_][\w$]*|\d+'[bhdoBHDO][0-9a-fA-FxzXZ_]+|\d+|\"[^\"]*\"|\S", text, flags=re.S)


def join_verilog(toks):
    out = []
    for t in toks:
        out.append(t)
        out.append("\n" if t in (";", "endmodule") or t.startswith("//") or t.startswith("`") else " ")
    return "".join(out)


def tok_eblif(text):
    toks = []
    for line in text.split("\n"):
        toks += line.split()
        toks.append("\n")
    return toks


def join_eblif(toks):
    return " ".join(toks).replace(" \n ", "\n").replace("\n ", "\n").replace(" \n", "\n")


FORMATS = {
    "edif": (tok_edif, join_edif, EDIF_REPL, ".edf"),
    "verilog": (tok_verilog, join_verilog, V_REPL, ".v"),
    "eblif": (tok_eblif, join_eblif, E_REPL, ".eblif"),
}


def faults(fmt, text, rng=None):
    """Enumerates the complete single-token fault space: yields (kind, position, corrupted text)."""
    tok, join, repl, _ = FORMATS[fmt]
    toks = tok(text)
    n = len(toks)
    for i in range(1, n):
        yield ("truncate", i, join(toks[:i]))
    for i in range(n):
        yield ("delete", i, join(toks[:i] + toks[i + 1:]))
    for i in range(n):
        yield ("duplicate", i, join(toks[:i + 1] + toks[i:]))
    for i in range(n):
        for k, r in enumerate(repl):
            if r != toks[i]:
                yield ("replace:%d" % k, i, join(toks[:i] + [r] + toks[i + 1:]))


def fault_at(fmt, toks, kind, i, k=0):
    tok, join, repl, _ = FORMATS[fmt]
    if kind == "truncate":
        return join(toks[:max(1, i)])
    if kind == "delete":
        return join(toks[:i] + toks[i + 1:])
    if kind == "duplicate":
        return join(toks[:i + 1] + toks[i:])
    r = repl[k % len(repl)]
    return join(toks[:i] + [r] + toks[i + 1:])


def fault_space_size(fmt, ntoks):
    return (ntoks - 1) + ntoks + ntoks + ntoks * len(FORMATS[fmt][2])


DELIMITERS = {"verilog": {"module", "endmodule", "`celldefine", "`endcelldefine"}, "eblif": {".model", ".end"}, "edif": set()}


def structural(fmt, text):
    """Loss or doubling of a structure delimiter (module/endmodule, .model/.end): two declarations merge into one or nest -
    the faults behind recursive or half-closed structures.  A small class, always run completely."""
    tok, join, _, _ = FORMATS[fmt]
    toks = tok(text)
    out = []
    for i, t in enumerate(toks):
        if t in DELIMITERS[fmt]:
            out.append(("delimiter-lost", i, join(toks[:i] + toks[i + 1:])))
            out.append(("delimiter-doubled", i, join(toks[:i + 1] + toks[i:])))
    if fmt == "edif":
        # whatever follows the design construct (comments, user data) is read like the rest of the file: a construct keyword
        # replaced by an unsupported one there is as unsupported as anywhere else
        ds = next((k for k in range(1, len(toks)) if toks[k].lower() == "design" and toks[k - 1] == "("), None)
        if ds is not None:
            depth_, de = 0, None
            for k in range(ds - 1, len(toks)):
                depth_ += 1 if toks[k] == "(" else (-1 if toks[k] == ")" else 0)
                if depth_ == 0:
                    de = k
                    break
            if de is not None:
                for k in range(de + 1, len(toks) - 1):
                    if toks[k] == "(" and toks[k + 1] not in "()":
                        out.append(("unsupported:keyword-after-design", k + 1, join(toks[:k + 1] + ["viewMap"] + toks[k + 2:])))
    if fmt == "verilog":
        # an instantiation retargeted to ANOTHER declared module: the hierarchy changes shape (possibly into a cycle that does
        # not even contain the module being read) while every token stays well-formed
        mods = []
        for i in range(len(toks) - 1):
            if toks[i] == "module" and toks[i + 1] not in mods:
                mods.append(toks[i + 1])
        for i, t in enumerate(toks):
            if i > 0 and t in mods and toks[i - 1] != "module":
                k = mods.index(t)
                for m in (mods[(k + 1) % len(mods)], mods[(k - 1) % len(mods)], mods[-1], mods[0]):
                    if m != t:
                        out.append(("instantiation-retargeted", i, join(toks[:i] + [m] + toks[i + 1:])))
    return out


def sibling_replacements(fmt, text):
    """Replacement of a token by the token that stood in the same position of the nearest EARLIER construct of the same kind
    (same preceding token): '(instance u2' -> '(instance u1', 'wire b' -> 'wire a', '.cname x2' -> '.cname x1'.  Every
    token stays well-formed; what changes is that two declarations now share a name, or a reference now means a sibling."""
    tok, join, _, _ = FORMATS[fmt]
    toks = tok(text)
    punct = set("()[]{};,.:=#") | {""}
    last = {}
    out = []
    for i in range(1, len(toks)):
        p_, t = toks[i - 1], toks[i]
        if t.startswith('"') and i >= 2 and toks[i - 2].lower() == "rename":
            p_ = '"original name"'          # (rename id "name"): the name string is replaced by an earlier element's name string
        elif t in punct or p_ in punct and fmt != "verilog":
            continue
        if t in DELIMITERS[fmt] or p_ == t:
            continue
        prev = last.get(p_)
        if prev is not None and prev != t:
            out.append(("sibling:%s" % p_.lower()[:20], i, join(toks[:i] + [prev] + toks[i + 1:])))
        last[p_] = t
    return out


def edif_dangling(text):
    """One corrupted text per reference (cellRef / libraryRef / portRef / instanceRef / member / design cellRef)
    retargeted to an undeclared identifier."""
    toks = tok_edif(text)
    out = []
    # near misses: the ORIGINAL NAME of a renamed element - (rename id "orig") - is not an identifier; when it is a legal
    # identifier that nothing declares, a reference of the matching kind retargeted to it is as dangling as one to
    # zz_undeclared (up to three nearest original names per reference, i.e. those of the same cell first)
    declared = set(t.lower() for t in toks if not t.startswith('"'))
    origs = []      # (kind of the renamed element, token position, original name)
    for i in range(2, len(toks) - 3):
        if toks[i] == "(" and toks[i + 1].lower() == "rename" and toks[i + 3].startswith('"'):
            o = toks[i + 3].strip('"')
            kind = toks[i - 1].lower() if toks[i - 2] == "(" else "?"
            if kind == "array" and i >= 4:
                kind = toks[i - 3].lower()
            if re.fullmatch(r"[A-Za-z][A-Za-z0-9_]*", o) and o.lower() not in declared:
                origs.append((kind, i, o))
    want_kind = {"cellref": "cell", "libraryref": "library", "instanceref": "instance", "portref": "port", "member": "port"}
    for i, t in enumerate(toks[:-1]):
        tl = t.lower()
        if tl in want_kind and toks[i + 1] not in "()":
            near = sorted((abs(p_ - i), o) for k_, p_, o in origs if k_ == want_kind[tl])[:3]   # the nearest ones: same cell first
            for _, o in near:
                out.append(("dangling:%s-to-an-original-name" % tl, i + 1, join_edif(toks[:i + 1] + [o] + toks[i + 2:])))
    # near misses of a second kind: an instanceRef retargeted to an instance that IS declared - but in another cell (for
    # example inside the cell of a child instance), which is not a declaration in the scope of the reference
    stack, cell_of, insts, irefs = [], None, {}, []
    for i, t in enumerate(toks):
        if t == "(":
            kw_ = toks[i + 1].lower() if i + 1 < len(toks) else ""
            nm_ = None
            if kw_ in ("cell", "instance") and i + 2 < len(toks):
                nm_ = toks[i + 2]
                if nm_ == "(" and i + 4 < len(toks) and toks[i + 3].lower() in ("rename", "array"):
                    nm_ = toks[i + 4] if toks[i + 4] != "(" else (toks[i + 6] if i + 6 < len(toks) else None)
            stack.append((kw_, nm_, i))
            if kw_ == "cell":
                cell_of = (nm_ or "?", i)
                insts.setdefault(cell_of, [])
            elif kw_ == "instance" and cell_of is not None and nm_ and nm_ not in "()":
                insts[cell_of].append((i, nm_))
        elif t == ")":
            if stack:
                kw_, nm_, _ = stack.pop()
                if kw_ == "cell":
                    cell_of = None
        elif t.lower() == "instanceref" and cell_of is not None and i + 1 < len(toks) and toks[i + 1] not in "()":
            irefs.append((i, cell_of))
    # near misses of a third kind: (cellRef X (libraryRef L)) retargeted to another DECLARED library that has no cell X
    libs, cur = {}, None
    depth, lib_depth = 0, None
    for i, t in enumerate(toks):
        if t == "(":
            depth += 1
            kw_ = toks[i + 1].lower() if i + 1 < len(toks) else ""
            if kw_ in ("library", "external", "cell") and i + 2 < len(toks):
                nm_ = toks[i + 2]
                if nm_ == "(" and i + 4 < len(toks) and toks[i + 3].lower() == "rename":
                    nm_ = toks[i + 4]
                if kw_ in ("library", "external"):
                    cur, lib_depth = nm_.lower(), depth
                    libs.setdefault(cur, set())
                elif cur is not None:
                    libs[cur].add(nm_.lower())
        elif t == ")":
            if lib_depth is not None and depth == lib_depth:
                cur, lib_depth = None, None
            depth -= 1
    for i in range(len(toks) - 5):
        if toks[i].lower() == "cellref" and toks[i + 1] not in "()" and toks[i + 2] == "(" and toks[i + 3].lower() == "libraryref" and toks[i + 4] not in "()":
            x, l = toks[i + 1].lower(), toks[i + 4].lower()
            others = sorted(l2 for l2, cells in libs.items() if l2 != l and x not in cells)
            for l2 in others[:2]:
                out.append(("dangling:cellref-in-a-library-that-lacks-the-cell", i + 4, join_edif(toks[:i + 4] + [l2] + toks[i + 5:])))
    # an unsupported form of a supported construct: (instanceRef (member X k)) - arrays of instances are not read
    for i, c in irefs[:40]:
        out.append(("unsupported:instanceref-member", i + 1, join_edif(toks[:i + 1] + ["(", "member", toks[i + 1], "0", ")"] + toks[i + 2:])))
    # which cell each instance instantiates (by cell identifier; the first declaration of that identifier is good enough here)
    target = {}
    for c2, lst in insts.items():
        for p_, n_ in lst:
            for k_ in range(p_, min(p_ + 14, len(toks) - 1)):
                if toks[k_].lower() == "cellref":
                    target[(c2, n_)] = toks[k_ + 1].lower()
                    break
    by_name = {}
    for c2 in insts:
        by_name.setdefault(c2[0].lower(), c2)

    def below(c, seen):
        """instances declared in the cells that c's instances instantiate, recursively (what a recursive lookup would find)"""
        out_ = []
        for p_, n_ in insts.get(c, []):
            c3 = by_name.get(target.get((c, n_), ""))
            if c3 is not None and c3 not in seen:
                seen.add(c3)
                out_ += [(c3, n2) for _, n2 in insts.get(c3, [])] + below(c3, seen)
        return out_
    for i, c in irefs:
        own = set(n_.lower() for _, n_ in insts.get(c, []))
        # first those that instantiate the same cell as the instance referred to now (the port named by the portRef exists there)
        orig_t = next((target.get((c, n_)) for _, n_ in insts.get(c, []) if n_.lower() == toks[i + 1].lower()), None)
        deep_ = sorted(((-2 if target.get((c3, n_)) == orig_t else -1), n_) for c3, n_ in below(c, {c}) if n_.lower() not in own)
        near = deep_ + sorted((abs(p_ - i), n_) for c2, lst in insts.items() if c2 != c for p_, n_ in lst if n_.lower() not in own)
        seen_ = set()
        for _, n_ in near:
            if n_.lower() in seen_:
                continue
            seen_.add(n_.lower())
            out.append(("dangling:instanceref-to-an-instance-of-another-cell", i + 1, join_edif(toks[:i + 1] + [n_] + toks[i + 2:])))
            if len(seen_) >= 2:
                break
    for i, t in enumerate(toks[:-1]):
        tl = t.lower()
        if tl in ("cellref", "libraryref", "instanceref", "viewref") and toks[i + 1] not in "()":
            out.append(("dangling:" + tl, i + 1, join_edif(toks[:i + 1] + ["zz_undeclared"] + toks[i + 2:])))
        elif tl == "portref" and toks[i + 1] != "(":
            out.append(("dangling:portref", i + 1, join_edif(toks[:i + 1] + ["zz_undeclared"] + toks[i + 2:])))
        elif tl == "member" and toks[i + 1] not in "()":
            out.append(("dangling:member", i + 1, join_edif(toks[:i + 1] + ["zz_undeclared"] + toks[i + 2:])))
            if i + 2 < len(toks) and re.fullmatch(r"\d+", toks[i + 2]):
                # a bit that the port does not have: beyond its width, or counted from the wrong end
                out.append(("dangling:member-index-beyond-width", i + 2, join_edif(toks[:i + 2] + ["999"] + toks[i + 3:])))
                out.append(("dangling:member-index-negative", i + 2, join_edif(toks[:i + 2] + ["-1"] + toks[i + 3:])))
                # a member of a two-dimensional array: arrays of arrays are not read
                out.append(("unsupported:member-with-two-indices", i + 2, join_edif(toks[:i + 3] + [toks[i + 2]] + toks[i + 3:])))
    return out
