"""Shared runtime for all property checks: environment, sharded runner, evidence, verdicts.

Every check is `python harness/check.py <Cxx> [--tier quick|thorough]`.  The parent process splits the
case range over shard subprocesses (fresh interpreters: spydrnet has process-wide state), merges
their JSON results, runs the deterministic probes of the open known findings, writes
evidence/<id>.json and exits 0 (held on what was observed), 1 (violation), 2 (inconclusive).
"""
import os
import sys
import json
import signal
import time
import hashlib
import random
import subprocess
import traceback
import collections

VERIF = os.path.dirname(os.path.dirname(os.path.abspath(__file__)))
REPO = os.environ.get("VERIF_REPO", "/repo")
PY = os.environ.get("VERIF_PYTHON", "/venv/bin/python")
GUARD = "SPYDRNET_VERIF"


def setup_env():
    """Make `import spydrnet` resolve to the working tree under test."""
    os.environ.setdefault("EXAMPLE_NETLISTS_PATH", os.path.join(REPO, "example_netlists"))
    os.environ.setdefault("SPYDRNET_LOG_LEVEL", "CRITICAL")
    if REPO not in sys.path:
        sys.path.insert(0, REPO)
    sys.dont_write_bytecode = True


def case_rng(prop, seed, index, salt=""):
    h = hashlib.sha256(("%s|%s|%s|%s" % (prop, seed, index, salt)).encode()).digest()
    return random.Random(int.from_bytes(h[:8], "big"))


def fp(obj):
    return hashlib.sha1(repr(obj).encode()).hexdigest()[:16]


class CaseTimeout(BaseException):
    pass


def _on_alarm(signum, frame):
    raise CaseTimeout()


class Ctx:
    """Per-shard accumulator handed to run_case()."""

    def __init__(self, prop, tier, seed):
        self.prop = prop
        self.tier = tier
        self.seed = seed
        self.counters = collections.Counter()
        self.fingerprints = set()
        self.nontrivial = set()
        self.samples = []
        self.violations = []
        self.known_hits = collections.Counter()
        self.case = None
        self.max_samples = 4
        self.inconclusive = []

    def count(self, key, n=1):
        self.counters[key] += n

    def fingerprint(self, obj, nontrivial=True):
        f = obj if isinstance(obj, str) and len(obj) == 16 else fp(obj)
        self.fingerprints.add(f)
        if nontrivial:
            self.nontrivial.add(f)

    def sample(self, obj):
        if len(self.samples) < self.max_samples:
            self.samples.append(obj)

    def violation(self, key, detail, extra=None):
        """key: mechanism key (string).  detail: human readable first failing fact."""
        v = {"key": key, "detail": str(detail)[:2000], "case": self.case, "extra": extra}
        self.violations.append(v)
        self.counters["violations_raw"] += 1

    def note_inconclusive(self, why):
        self.inconclusive.append(str(why)[:500])


def _shard_main(mod, prop, tier, seed, shard, nshards, out, only_case=None):
    setup_env()
    ctx = Ctx(prop, tier, seed)
    plan = mod.plan(tier)
    n = plan["cases"]
    t0 = time.time()
    deadline = t0 + plan.get("shard_budget_s", 3600)
    if hasattr(mod, "setup"):
        mod.setup(ctx)
    anchors = anchor_files(prop)
    if anchors and os.environ.get("VERIF_COVMON", "1") != "0":
        from . import covmon
        covmon.start(REPO, anchors)
    indices = [only_case] if only_case is not None else range(shard, n, nshards)
    for i in indices:
        if time.time() > deadline:
            ctx.count("cases_skipped_budget")
            continue
        ctx.case = i
        rng = case_rng(prop, seed, i)
        signal.signal(signal.SIGALRM, _on_alarm)
        signal.alarm(plan.get("case_timeout_s", 300))
        try:
            mod.run_case(ctx, i, rng)
        except CaseTimeout:
            where = " <- ".join("%s:%d %s" % (os.path.basename(fr.filename), fr.lineno, fr.name)
                                for fr in reversed(traceback.extract_tb(sys.exc_info()[2])[-4:]))
            ctx.note_inconclusive("case %d hit the %ds wall-clock watchdog (interrupted at %s)" % (i, plan.get("case_timeout_s", 300), where))
            ctx.count("cases_timed_out")
        except Exception:
            ctx.violation("harness-exception", traceback.format_exc()[-1800:])
        finally:
            signal.alarm(0)
        ctx.count("cases")
        if len(ctx.violations) > 200:
            break
    if hasattr(mod, "teardown"):
        mod.teardown(ctx)
    reach = {}
    if anchors and os.environ.get("VERIF_COVMON", "1") != "0":
        from . import covmon
        reach = covmon.stop()
    res = {
        "reach": reach,
        "counters": dict(ctx.counters),
        "fingerprints": sorted(ctx.fingerprints),
        "nontrivial": sorted(ctx.nontrivial),
        "samples": ctx.samples,
        "violations": ctx.violations[:200],
        "inconclusive": ctx.inconclusive[:20],
        "wall_s": time.time() - t0,
    }
    with open(out, "w") as f:
        json.dump(res, f, default=str)


def anchor_files(prop):
    try:
        for l in open(os.path.join(VERIF, "properties.jsonl")):
            p = json.loads(l)
            if p["id"] == prop:
                return [f for f in p["anchors"]["files"] if f.endswith(".py")]
    except OSError:
        pass
    return []


def load_findings():
    p = os.path.join(VERIF, "known_findings.json")
    if not os.path.exists(p):
        return []
    with open(p) as f:
        return json.load(f)["findings"]


def open_findings(prop):
    return [x for x in load_findings() if prop in x["properties"] and x["status"] == "open"]


_FENCE_CACHE = {}


def fenced(mod, key):
    """True while finding `key` is listed as open for this property AND its deterministic probe still reproduces
    on the tree under test: the random workload then stays out of that mechanism's trigger (DESIGN 3.11)."""
    ck = (mod.PROP, key)
    if ck not in _FENCE_CACHE:
        on = False
        if any(x["key"] == key for x in open_findings(mod.PROP)):
            try:
                on = bool(mod.PROBES[key]())
            except Exception:
                on = False
        _FENCE_CACHE[ck] = on
    return _FENCE_CACHE[ck]


def write_replay(prop, seed, tier, v):
    d = os.path.join(VERIF, "replays", prop)
    os.makedirs(d, exist_ok=True)
    name = fp((v["key"], v["detail"], v["case"])) + ".json"
    path = os.path.join(d, name)
    with open(path, "w") as f:
        json.dump({"property": prop, "seed": seed, "tier": tier, "case": v["case"], "key": v["key"],
                   "detail": v["detail"], "extra": v.get("extra"),
                   "note": "replay: harness/check.py %s --replay %s (re-runs this case index with the "
                           "same seed; internal set-iteration order of spydrnet may differ)" % (prop, path)},
                  f, indent=1, default=str)
    return path


def main(mod):
    import argparse
    prop = mod.PROP
    ap = argparse.ArgumentParser()
    ap.add_argument("--tier", default=os.environ.get("VERIF_TIER", "quick"))
    ap.add_argument("--seed", type=int, default=int(os.environ.get("VERIF_SEED", "0")))
    ap.add_argument("--replay")
    ap.add_argument("--shard", type=int)
    ap.add_argument("--nshards", type=int, default=1)
    ap.add_argument("--out")
    ap.add_argument("--case", type=int)
    a = ap.parse_args()
    if a.tier not in ("quick", "thorough"):
        a.tier = "quick"
    if a.shard is not None:
        _shard_main(mod, prop, a.tier, a.seed, a.shard, a.nshards, a.out, a.case)
        return 0
    if a.replay:
        with open(a.replay) as f:
            rp = json.load(f)
        a.seed, a.tier, a.case = rp["seed"], rp["tier"], rp["case"]
    t0 = time.time()
    plan = mod.plan(a.tier)
    nshards = 1 if a.case is not None else plan.get("shards", 1)
    nshards = max(1, min(nshards, os.cpu_count() or 1, plan["cases"]))
    tmpd = os.path.join(VERIF, ".run", "%s_%d_%d" % (prop, os.getpid(), int(t0)))
    os.makedirs(tmpd, exist_ok=True)
    env = dict(os.environ)
    env.update({"PYTHONHASHSEED": "0", "PYTHONDONTWRITEBYTECODE": "1", GUARD: "1",
                "SPYDRNET_LOG_LEVEL": "CRITICAL"})
    procs = []
    for s in range(nshards):
        out = os.path.join(tmpd, "shard%d.json" % s)
        cmd = [PY, "-W", "ignore", os.path.join(VERIF, "harness", "check.py"), prop, "--tier", a.tier,
               "--seed", str(a.seed), "--shard", str(s), "--nshards", str(nshards), "--out", out]
        if a.case is not None:
            cmd += ["--case", str(a.case)]
        log = open(os.path.join(tmpd, "shard%d.log" % s), "w")
        procs.append((s, out, subprocess.Popen(cmd, cwd=VERIF, env=env, stdout=log, stderr=subprocess.STDOUT), log))
    wd = plan.get("watchdog_s", 1800)
    inconclusive = []
    merged = {"counters": collections.Counter(), "fingerprints": set(), "nontrivial": set(), "samples": [],
              "violations": []}
    for s, out, p, log in procs:
        try:
            rc = p.wait(timeout=max(5, wd - (time.time() - t0)))
        except subprocess.TimeoutExpired:
            p.kill()
            p.wait()
            rc = None
            inconclusive.append("shard %d watchdog" % s)
        log.close()
        if rc not in (0, None) or (rc == 0 and not os.path.exists(out)):
            tail = open(os.path.join(tmpd, "shard%d.log" % s)).read()[-600:]
            inconclusive.append("shard %d exited %s: %s" % (s, rc, tail))
        if os.path.exists(out):
            with open(out) as f:
                r = json.load(f)
            merged["counters"].update(r["counters"])
            merged["fingerprints"].update(r["fingerprints"])
            merged["nontrivial"].update(r["nontrivial"])
            merged["samples"] += r["samples"]
            merged["violations"] += r["violations"]
            inconclusive += r.get("inconclusive", [])
            for pth, ls in r.get("reach", {}).items():
                merged.setdefault("reach", {}).setdefault(pth, set()).update(ls)
    import shutil
    shutil.rmtree(tmpd, ignore_errors=True)
    try:
        os.rmdir(os.path.join(VERIF, ".run"))
    except OSError:
        pass
    c = merged["counters"]
    # known findings: deterministic probes (run here, in the parent, against the tree under test)
    setup_env()
    known_lines = []
    known = {x["key"]: x for x in open_findings(prop)}
    probes = getattr(mod, "PROBES", {})
    probe_state = {}
    for key, kf in known.items():
        fn = probes.get(key)
        if fn is None:
            probe_state[key] = "no-probe"
            continue
        try:
            rep = run_probe_isolated(prop, key, env)
        except Exception as e:  # probe machinery failure is not a verdict
            rep = None
            inconclusive.append("probe %s failed to run: %r" % (key, e))
        probe_state[key] = rep
        if rep:
            known_lines.append("KNOWN-FINDING: property=%s %s: %s" % (prop, key, kf["what_fails"]))
    real = []
    attributed = collections.Counter()
    for v in merged["violations"]:
        if v["key"] in known:
            attributed[v["key"]] += 1
        else:
            real.append(v)
    # a violation attributed to a known key whose probe does not reproduce is reported
    for k in list(attributed):
        if not probe_state.get(k):
            real += [v for v in merged["violations"] if v["key"] == k]
        elif not any(l.startswith("KNOWN-FINDING: property=%s %s:" % (prop, k)) for l in known_lines):
            known_lines.append("KNOWN-FINDING: property=%s %s: %s" % (prop, k, known[k]["what_fails"]))
    required = getattr(mod, "REQUIRED", {})
    if a.case is None:
        for k, mn in required.items():
            if c.get(k, 0) < mn:
                inconclusive.append("monitor counter %s=%d below required %d" % (k, c.get(k, 0), mn))
    for l in known_lines:
        print(l)
    if real:
        hist = collections.Counter(v["key"] for v in real)
        print("violation keys:", dict(hist.most_common(25)))
    replay_paths = []
    seen = set()
    for v in real:
        sig = (v["key"], v["detail"][:120])
        if sig in seen:
            continue
        seen.add(sig)
        if len(replay_paths) >= 10:
            break
        path = write_replay(prop, a.seed, a.tier, v)
        replay_paths.append(path)
        print("VIOLATION property=%s replay=%s" % (prop, path))
        print("  key=%s case=%s :: %s" % (v["key"], v["case"], v["detail"][:600].replace("\n", " | ")))
    wall = time.time() - t0
    cov = {
        "evaluations": int(c.get("cases", 0)),
        "distinct_nontrivial": len(merged["nontrivial"]),
        "distinct_cases": len(merged["fingerprints"]),
        "rule": mod.RULE,
        "samples": merged["samples"][:6] or ["(no sample recorded)"],
        "monitor_counters": {k: int(v) for k, v in sorted(c.items())},
        "shards": nshards,
        "known_findings_probed": {k: bool(v) for k, v in probe_state.items()},
        "violations_attributed_to_known_findings": dict(attributed),
        "inconclusive_reasons": inconclusive[:10],
    }
    if merged.get("reach"):
        from . import covmon
        cov.update(covmon.summarise(REPO, merged["reach"]))
    if hasattr(mod, "extra_coverage"):
        cov.update(mod.extra_coverage(c))
    ev = {
        "property_id": prop, "tier": a.tier, "seed": a.seed, "level": mod.LEVEL, "coverage": cov,
        "assumptions": getattr(mod, "ASSUMPTIONS", []), "wall_s": round(wall, 2), "violations": len(real),
        "verdict": "violated" if real else ("inconclusive" if inconclusive else "held-on-observed"),
    }
    if a.case is None or not os.path.exists(os.path.join(VERIF, "evidence", prop + ".json")):
        os.makedirs(os.path.join(VERIF, "evidence"), exist_ok=True)
        with open(os.path.join(VERIF, "evidence", prop + ".json"), "w") as f:
            json.dump(ev, f, indent=1, default=str)
    summ = "%s tier=%s seed=%d cases=%d distinct_nontrivial=%d violations=%d known=%d wall=%.1fs" % (
        prop, a.tier, a.seed, cov["evaluations"], cov["distinct_nontrivial"], len(real), len(known_lines), wall)
    print(summ)
    if real:
        return 1
    if inconclusive:
        for r in inconclusive[:5]:
            print("INCONCLUSIVE property=%s reason=%s" % (prop, r.replace("\n", " | ")[:400]))
        return 2
    return 0


def run_probe_isolated(prop, key, env):
    """Run one known-finding probe in a fresh interpreter; True = the finding still reproduces."""
    r = subprocess.run([PY, "-W", "ignore", os.path.join(VERIF, "harness", "check.py"), prop, "--probe", key],
                       cwd=VERIF, env=env, capture_output=True, text=True, timeout=300)
    last = [l for l in r.stdout.splitlines() if l.startswith("PROBE ")]
    if not last:
        raise RuntimeError("probe produced no verdict: rc=%s %s %s" % (r.returncode, r.stdout[-300:], r.stderr[-300:]))
    return last[-1].split()[1] == "reproduces"


INPUT_EXTS = {".edf": [".edf", ".edf", ".edif", ".edn", ".EDF", ".Edif"], ".v": [".v", ".v", ".vh", ".vm", ".V"],
              ".eblif": [".eblif", ".eblif", ".blif", ".EBLIF"]}


def input_variant(path, rng):
    """The same text under another accepted file name: an alternative or upper-case extension, or packed into a single-file
    zip archive named <file>.zip (all documented ways to hand a file to sdn.parse).  Returns the path to parse."""
    import zipfile
    base, ext = os.path.splitext(path)
    new = base + rng.choice(INPUT_EXTS[ext])
    if new != path:
        os.replace(path, new)
    if rng.random() < 0.12:
        z = new + ".zip"
        with zipfile.ZipFile(z, "w") as zf:
            zf.write(new, os.path.basename(new))
        os.remove(new)
        return z
    return new
