"""Probe layer: wraps every public mutator of the IR (on the base classes in spydrnet.ir.<module>) so that
monitors run at *outermost* mutator exits only (quiescent points).  Applied from the harness; with the
guard variable unset nothing is patched."""
import os
import sys
import collections

from . import common

METHODS = {
    "netlist.Netlist": ["set_top_instance", "create_library", "add_library", "remove_library",
                        "remove_libraries_from"],
    "library.Library": ["create_definition", "add_definition", "remove_definition", "remove_definitions_from"],
    "definition.Definition": ["create_port", "add_port", "remove_port", "remove_ports_from", "create_child",
                              "add_child", "remove_child", "remove_children_from", "create_cable", "add_cable",
                              "remove_cable", "remove_cables_from"],
    "port.Port": ["create_pin", "create_pins", "add_pin", "remove_pin", "remove_pins_from"],
    "cable.Cable": ["create_wire", "create_wires", "add_wire", "remove_wire", "remove_wires_from"],
    "wire.Wire": ["connect_pin", "disconnect_pin", "disconnect_pins_from"],
    "first_class_element.FirstClassElement": ["__setitem__", "__delitem__", "pop"],
}
PROPERTIES = {
    "netlist.Netlist": ["libraries", "top_instance"],
    "library.Library": ["definitions"],
    "definition.Definition": ["ports", "cables", "children"],
    "port.Port": ["pins", "direction"],
    "cable.Cable": ["wires"],
    "wire.Wire": ["pins"],
    "instance.Instance": ["reference"],
    "bundle.Bundle": ["is_downto", "is_scalar", "is_array", "lower_index"],
    "first_class_element.FirstClassElement": ["name"],
}


class State:
    depth = 0
    hits = collections.Counter()
    pre = []    # fn(label, args, kwargs)
    post = []   # fn(label, args, kwargs, result, exc)
    installed = False
    missing = []


def _wrap(fn, label):
    S = State

    def w(*a, **k):
        S.hits[label] += 1
        if S.depth == 0 and S.pre:
            for h in S.pre:
                h(label, a, k)
        S.depth += 1
        try:
            r = fn(*a, **k)
        except BaseException as e:
            S.depth -= 1
            if S.depth == 0 and S.post:
                for h in S.post:
                    h(label, a, k, None, e)
            raise
        S.depth -= 1
        if S.depth == 0 and S.post:
            for h in S.post:
                h(label, a, k, r, None)
        return r
    w.__name__ = getattr(fn, "__name__", "w")
    w.__wrapped__ = fn
    return w


def install():
    """Patch the base IR classes.  Must be called after `import spydrnet`."""
    if State.installed:
        return
    if not os.environ.get(common.GUARD):
        return
    import importlib
    for modcls, names in METHODS.items():
        m, c = modcls.split(".")
        cls = getattr(importlib.import_module("spydrnet.ir." + m), c)
        for n in names:
            fn = cls.__dict__.get(n)
            if fn is None:
                State.missing.append("%s.%s" % (c, n))
                continue
            setattr(cls, n, _wrap(fn, "%s.%s" % (c, n)))
    for modcls, names in PROPERTIES.items():
        m, c = modcls.split(".")
        cls = getattr(importlib.import_module("spydrnet.ir." + m), c)
        for n in names:
            p = cls.__dict__.get(n)
            if not isinstance(p, property) or p.fset is None:
                State.missing.append("%s.%s=" % (c, n))
                continue
            fdel = _wrap(p.fdel, "%s.del_%s" % (c, n)) if p.fdel else None
            setattr(cls, n, property(p.fget, _wrap(p.fset, "%s.%s=" % (c, n)), fdel, p.__doc__))
    State.installed = True


def reset_hooks():
    State.pre = []
    State.post = []
    State.depth = 0


_SPY = os.path.join(common.REPO, "spydrnet") + os.sep


def classify_exception(exc):
    """'refusal' when the innermost spydrnet frame is an explicit assert/raise; 'crash' otherwise."""
    tb = exc.__traceback__
    inner = None
    while tb is not None:
        fn = tb.tb_frame.f_code.co_filename
        if fn.startswith(_SPY):
            inner = (fn, tb.tb_lineno)
        tb = tb.tb_next
    if inner is None:
        return "crash"
    if isinstance(exc, AssertionError):
        return "refusal"
    if isinstance(exc, KeyError) and inner[0].endswith("first_class_element.py"):
        return "refusal"    # deleting / popping a key that is not there: the dictionary's own refusal
    return "refusal" if inner[1] in _raise_lines(inner[0]) else "crash"


_RL = {}


def _raise_lines(filename):
    """All source lines covered by an explicit `raise`/`assert` statement of a file (via ast)."""
    if filename not in _RL:
        import ast
        lines = set()
        try:
            tree = ast.parse(open(filename).read())
            for node in ast.walk(tree):
                if isinstance(node, (ast.Raise, ast.Assert)):
                    lines.update(range(node.lineno, (node.end_lineno or node.lineno) + 1))
        except (OSError, SyntaxError):
            pass
        _RL[filename] = lines
    return _RL[filename]


def innermost_frame(exc):
    tb = exc.__traceback__
    inner = None
    while tb is not None:
        fn = tb.tb_frame.f_code.co_filename
        if fn.startswith(_SPY):
            inner = "%s:%d:%s" % (fn[len(_SPY):], tb.tb_lineno, tb.tb_frame.f_code.co_name)
        tb = tb.tb_next
    return inner
